//! C20 (registry half) — Kani harnesses for the link registry `agent::task::links::Links`:
//! after every operation the per-lane uplink count reported through the lane's
//! `UplinkReporter` and the aggregate reported through the agent's reporter equal the number of
//! (lane, remote) pairs actually linked, and the two indexes + running total stay in step.
//! Two lanes, two remotes, concrete ids; operation sequences are generated (complete up to the
//! stated length); state lives in locals (see uplinks.rs for why).
#![allow(dead_code, unused_imports, unused_variables)]

use super::*;
use crate::agent::reporting::UplinkReportReader;
use std::mem::ManuallyDrop;

fn rid(r: usize) -> Uuid {
    Uuid::from_u128(r as u128 + 1)
}

/// reference: bit (2*lane + remote) set iff (lane, remote) is linked
fn bit(lane: u64, remote: usize) -> u8 {
    1u8 << (2 * lane as usize + remote)
}

fn lane_count(refset: u8, lane: u64) -> u64 {
    let m = (refset >> (2 * lane as usize)) & 3;
    ((m & 1) + ((m >> 1) & 1)) as u64
}

fn total(refset: u8) -> u64 {
    lane_count(refset, 0) + lane_count(refset, 1)
}

/// Laws after every operation. `reg[l]`: a reporter is registered for lane l and the lane has
/// not been removed since.
/// Counts only (cheap): checked after every operation.
fn count_laws(links: &Links, refset: u8, readers: &[UplinkReportReader; 2], agg: &UplinkReportReader, reg: [bool; 2]) {
    assert!(links.total_count == total(refset), "C20:running_total_matches_links");
    match agg.snapshot() {
        Some(s) => assert!(s.link_count == total(refset), "C20:aggregate_uplink_count_is_number_of_links"),
        None => assert!(false, "C20:aggregate_reporter_stays_live"),
    }
    let mut l = 0u64;
    while l < 2 {
        if reg[l as usize] {
            match readers[l as usize].snapshot() {
                Some(s) => assert!(s.link_count == lane_count(refset, l), "C20:lane_uplink_count_is_number_of_links"),
                None => assert!(false, "C20:lane_reporter_survives_link_changes"),
            }
        }
        l += 1;
    }
}

fn laws(links: &Links, refset: u8, readers: &[UplinkReportReader; 2], agg: &UplinkReportReader, reg: [bool; 2]) {
    assert!(links.total_count == total(refset), "C20:running_total_matches_links");
    match agg.snapshot() {
        Some(s) => assert!(s.link_count == total(refset), "C20:aggregate_uplink_count_is_number_of_links"),
        None => assert!(false, "C20:aggregate_reporter_stays_live"),
    }
    let mut l = 0u64;
    while l < 2 {
        if reg[l as usize] {
            match readers[l as usize].snapshot() {
                Some(s) => assert!(s.link_count == lane_count(refset, l), "C20:lane_uplink_count_is_number_of_links"),
                None => assert!(false, "C20:lane_reporter_survives_link_changes"),
            }
        }
        // forward / backwards agree with the reference
        let mut r = 0;
        while r < 2 {
            let linked = refset & bit(l, r) != 0;
            assert!(links.is_linked(rid(r), l) == linked, "C20:forward_index_matches_links");
            let back = match links.linked_to(rid(r)) {
                Some(set) => set.contains(&l),
                None => false,
            };
            assert!(back == linked, "C20:backward_index_matches_links");
            r += 1;
        }
        l += 1;
    }
}

macro_rules! lsim {
    ($links:ident, $refset:ident, $readers:ident, $agg:ident, $reg:ident) => {
        let agg_rep = UplinkReporter::default();
        let $agg = agg_rep.reader();
        let mut $links = ManuallyDrop::new(Links::new(Some(agg_rep)));
        let rep0 = UplinkReporter::default();
        let rep1 = UplinkReporter::default();
        let $readers = [rep0.reader(), rep1.reader()];
        $links.register_reporter(0, rep0);
        $links.register_reporter(1, rep1);
        let mut $refset: u8 = 0;
        let mut $reg = [true, true];
    };
}

macro_rules! op_insert {
    ($links:ident, $refset:ident, $readers:ident, $agg:ident, $reg:ident, $l:expr, $r:expr) => {{
        $links.insert($l, rid($r));
        $refset |= bit($l, $r);
        count_laws(&$links, $refset, &$readers, &$agg, $reg);
    }};
}

macro_rules! op_remove {
    ($links:ident, $refset:ident, $readers:ident, $agg:ident, $reg:ident, $l:expr, $r:expr) => {{
        let t = $links.remove($l, rid($r));
        let was = $refset & bit($l, $r) != 0;
        $refset &= !bit($l, $r);
        let other_lane = 1 - $l;
        let still = $refset & bit(other_lane, $r) != 0;
        assert!(t.remote_id == rid($r), "C20:unlink_names_the_remote");
        if was {
            assert!(t.schedule_prune == !still, "C20:prune_scheduled_iff_remote_has_no_links_left");
        }
        count_laws(&$links, $refset, &$readers, &$agg, $reg);
    }};
}

macro_rules! op_remove_remote {
    ($links:ident, $refset:ident, $readers:ident, $agg:ident, $reg:ident, $r:expr) => {{
        $links.remove_remote(rid($r));
        $refset &= !(bit(0, $r) | bit(1, $r));
        count_laws(&$links, $refset, &$readers, &$agg, $reg);
    }};
}

macro_rules! op_remove_lane {
    ($links:ident, $refset:ident, $readers:ident, $agg:ident, $reg:ident, $l:expr) => {{
        let mut n = 0u64;
        for t in $links.remove_lane($l) {
            n += 1;
        }
        assert!(n == lane_count($refset, $l), "C20:one_unlink_per_link_of_the_removed_lane");
        $refset &= !(bit($l, 0) | bit($l, 1));
        // the lane is gone: its reporter goes with it
        $reg[$l as usize] = false;
        count_laws(&$links, $refset, &$readers, &$agg, $reg);
    }};
}

macro_rules! op_remove_all {
    ($links:ident, $refset:ident, $readers:ident, $agg:ident, $reg:ident) => {{
        let mut n = 0u64;
        for (l, r) in $links.remove_all_links() {
            n += 1;
        }
        assert!(n == total($refset), "C20:one_unlink_per_link_on_remove_all");
        $refset = 0;
        count_laws(&$links, $refset, &$readers, &$agg, $reg);
    }};
}

macro_rules! lend {
    ($links:ident, $refset:ident, $readers:ident, $agg:ident, $reg:ident) => {{
        laws(&$links, $refset, &$readers, &$agg, $reg);
        kani::cover!(true, "reached_end");
        std::mem::forget($readers);
        std::mem::forget($agg);
    }};
}

include!("/verif/kani/gen/swimos_runtime__links.rs");
include!("/verif/kani/gen/playback/swimos_runtime__agent__task__links__verif_kani.rs");
