//! C02 (runtime layer) — Kani harnesses for `backpressure::map_queue::MapOperationQueue`:
//! per-remote coalescing queue keyed by the Recon text of the key. `ReconKey` equality
//! (`swimos_recon::compare_recon_values`, the incremental Recon parser: out of reach, see C15) is
//! stubbed by byte equality, so only textually equal keys collide here.
#![allow(dead_code, unused_imports)]
use super::*;
use bytes::Bytes;
use std::collections::hash_map::DefaultHasher;
use std::hash::BuildHasherDefault;
use std::mem::ManuallyDrop;

pub fn stub_compare(a: &str, b: &str) -> bool {
    let x = a.as_bytes();
    let y = b.as_bytes();
    x.len() == y.len() && (x.len() == 0 || x[0] == y[0])
}

type Q = MapOperationQueue<BuildHasherDefault<DefaultHasher>>;

pub const NKEYS: usize = 2;

/// reference: per key, coded value (0 absent, v+1) and the set of values ever held (bit mask)
pub struct MSim {
    q: ManuallyDrop<Q>,
    cur: [u8; NKEYS],
    all: [u16; NKEYS],
    obs: [u8; NKEYS],
    popped: u8,
}

fn key_bytes(k: u8) -> BytesMut {
    // keys are the one-byte texts "a", "b"
    let arr = [b'a' + k];
    BytesMut::from(&arr[..])
}

impl MSim {
    pub fn new() -> MSim {
        MSim {
            q: ManuallyDrop::new(MapOperationQueue::with_hasher(BuildHasherDefault::default())),
            cur: [0; NKEYS],
            all: [1; NKEYS],
            obs: [0; NKEYS],
            popped: 0,
        }
    }

    pub fn update(&mut self, k: u8) {
        let v: u8 = kani::any();
        kani::assume(v < 8);
        let val = [b'0' + v];
        let r = self.q.push(MapOperation::Update {
            key: key_bytes(k),
            value: BytesMut::from(&val[..]),
        });
        assert!(r.is_ok(), "C02:valid_key_is_accepted");
        std::mem::forget(r);
        self.cur[k as usize] = v + 1;
        self.all[k as usize] |= 1 << (v + 1);
    }

    pub fn remove(&mut self, k: u8) {
        let r = self.q.push(MapOperation::Remove { key: key_bytes(k) });
        assert!(r.is_ok(), "C02:valid_key_is_accepted");
        std::mem::forget(r);
        self.cur[k as usize] = 0;
        self.all[k as usize] |= 1;
    }

    pub fn clear(&mut self) {
        let r = self.q.push(MapOperation::Clear);
        assert!(r.is_ok(), "C02:valid_key_is_accepted");
        std::mem::forget(r);
        self.cur = [0; NKEYS];
        self.all[0] |= 1;
        self.all[1] |= 1;
    }

    fn key_index(key: &Bytes) -> usize {
        assert!(key.len() == 1 && (key[0] == b'a' || key[0] == b'b'), "C02:popped_key_is_a_lane_key");
        (key[0] - b'a') as usize
    }

    pub fn pop(&mut self) -> bool {
        match self.q.pop() {
            Some(op) => {
                self.popped += 1;
                match &op {
                    MapOperation::Update { key, value } => {
                        let k = MSim::key_index(key);
                        assert!(value.len() == 1 && value[0] >= b'0' && value[0] < b'8', "C02:popped_value_well_formed");
                        let c = value[0] - b'0' + 1;
                        assert!(self.all[k] & (1 << c) != 0, "C02:popped_value_was_held_by_that_key");
                        self.obs[k] = c;
                    }
                    MapOperation::Remove { key } => {
                        let k = MSim::key_index(key);
                        self.obs[k] = 0;
                    }
                    MapOperation::Clear => self.obs = [0; NKEYS],
                }
                std::mem::forget(op);
                true
            }
            None => false,
        }
    }

    pub fn end_check(mut self) {
        let more = self.pop();
        assert!(!more, "C02:runtime_queue_drains_within_bound");
        assert!(self.q.is_empty(), "C02:runtime_queue_empty_after_drain");
        assert!(self.obs[0] == self.cur[0] && self.obs[1] == self.cur[1], "C02:remote_replica_converges");
        kani::cover!(self.popped > 0, "something was delivered");
        kani::cover!(true, "reached_end");
        std::mem::forget(self);
    }
}

include!("/verif/kani/gen/swimos_runtime__map_queue.rs");
include!("/verif/kani/gen/playback/swimos_runtime__backpressure__map_queue__verif_kani.rs");
