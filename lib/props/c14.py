"""C14 — supply items are never coalesced: SupplyBackpressure driven with the supply uplink's
protocol (push_bytes while the writer is lent out; had_data/prepare_write per hand-back)."""
from lib.props import c07
from lib.runner import Group, REPO


def plan(tier, seed):
    hs = c07.gen_all(tier, seed)["C14"]
    g = Group("swimos_runtime_c14", REPO, "repo", hs, package="swimos_runtime", stubbing=True,
              jobs=5, timeout=1500 if tier == "quick" else 2400, mem_gb=12)
    meta = {
        "rule": "every sequence of pushes (item length concrete 0,1 quick (+6 seeded with 2-byte items) / 0,1,2 thorough; bytes symbolic) and writer "
                "hand-backs up to length 3 (quick) / 3 with item lengths 0..2 (thorough) through the real SupplyBackpressure as Uplinks::{push,replace_and_pop} drive it; "
                "oracle: items handed out == items pushed, same order, same multiplicity, same bytes; queue empty after one hand-back per item.",
        "functions_encoded": ["SupplyBackpressure::{push_bytes,has_data}", "<SupplyBackpressure as BackpressureStrategy>::prepare_write", "bytes::{BytesMut,Buf::get_u64,take,put}"],
        "bounds": {"item_bytes": "0..1 quick (+2 seeded) / 0..2 thorough", "shape_length": "3 quick / 3 (lengths 0..2) thorough", "unwind": 8},
        "stubs": [],
        "outside": ["shapes with a non-empty push after a hand-back that consumed a non-empty item (CBMC aborts on BytesMut::reserve of an advanced buffer: measured)", "command lanes' handler invocation and ad hoc commands (CommandOutput / external_links): not encoded", "the Uplinks scheduler around the strategy (write_queue, queued flag, special queue): needs RemoteSender/byte channels",
                    "agent-side SupplyLane queue, real channel writes, task interleavings"],
        "assumptions": ["the harness's caller protocol is the one in remotes/uplink/mod.rs (read, not encoded)"],
    }
    return [g], meta
