"""C10 — raw (bytes-bodied) frame codecs: what was encoded is what is decoded under every
two-piece fragmentation, frames back to back are not eaten into, corrupt tags / lengths give
an error (never a panic or a silently wrong message).

The wire layout of every frame kind is written here as a list of byte expressions (literal
constants for tags / length fields, `s.<field>[i]` for symbolic content). Three generated
harness families use it (exact-size array literals — see ext/c10_codecs/src/lib.rs for why):
  enc   real encoder output == layout                      (C10:encoder_layout)
  cut   real decoder fed layout[..c] then layout[c..]      (C10:prefix_yields_none, completes_after_rest,
        for every c, and the whole frame at once            roundtrip, source_drained, whole_frame_decodes)
  two   two frames back to back, every cut / no cut        (C10:next_frame_untouched, roundtrip_first/second ...)
  bad   layout with a tag byte / a whole length field      (C10:corrupt_not_silently_wrong + Kani's own
        replaced by symbolic bytes                          panic / overflow checks)
"""
import os
import random
import shutil

from lib.runner import Harness, Group, GEN, REPO, VERIF

CRATE = os.path.join(VERIF, "ext", "c10_codecs")
GENFILE = os.path.join(GEN, "c10_codecs.rs")
ATTR = "#[kani::proof]\n#[kani::unwind({u})]\n#[kani::stub(std::fmt::format, stub_format)]\n"

T, L, D = "tag", "len", "data"


def be(v, width):
    return [str((v >> (8 * (width - 1 - i))) & 0xFF) for i in range(width)]


def const(v, width, role, fid):
    return [(x, role, fid) for x in be(v, width)]


def field(name, n):
    return [(f"s.{name}[{i}]", D, None) for i in range(n)]


def tag(v, fid="tag"):
    return [(str(v), T, fid)]


def len64(v, fid):
    return const(v, 8, L, fid)


# ---- layouts --------------------------------------------------------------------------------

def lay_wlb(a):
    return len64(a, "body_len") + field("a", a)


def lay_mop_upd(a, b):
    return len64(a + b + 9, "total_len") + tag(0, "op_tag") + len64(a, "key_len") + field("a", a) + field("b", b)


def lay_mop_rem(a):
    return len64(a + 1, "total_len") + tag(1, "op_tag") + field("a", a)


def lay_mop_clr():
    return len64(1, "total_len") + tag(2, "op_tag")


def lay_mmsg_n(t):
    return len64(9, "total_len") + tag(t, "op_tag") + field("n", 8)


def lay_addr(h):
    out = []
    if h:
        out += len64(1, "host_len")
    out += len64(1, "node_len") + len64(1, "lane_len")
    if h:
        out += field("host", 1)
    return out + field("node", 1) + field("lane", 1)


def lay_routed(tagv, a):
    # 16-byte id, u32 node len, u32 lane len, u64 = tag << 61 | body len, node, lane, body
    word = (tagv << 61) | a
    w = be(word, 8)
    return (field("id", 16) + const(1, 4, L, "node_len") + const(1, 4, L, "lane_len")
            + [(w[0], T, "tag_and_len")] + [(x, L, "tag_and_len") for x in w[1:]]
            + field("node", 1) + field("lane", 1) + field("a", a))


class K:
    def __init__(self, name, rust, layout, fam, what):
        self.name, self.rust, self.layout, self.fam, self.what = name, rust, layout, fam, what
        self.n = len(layout)

    def exprs(self, var="s"):
        return [e.replace("s.", var + ".") for e, _, _ in self.layout]


def kinds(maxb):
    """All frame kinds with body / key / value lengths up to maxb."""
    ks = []
    bl = list(range(maxb + 1))
    kv = [(a, b) for a in bl for b in bl]
    for a in bl:
        ks.append(K(f"vreq_cmd{a}", f"VReqCmd<{a}>", tag(0) + lay_wlb(a), "vreq",
                    f"RawValueLaneRequest Command, {a}-byte body"))
    ks.append(K("vreq_sync", "VReqSync", tag(1) + field("id", 16), "vreq", "RawValueLaneRequest Sync(id)"))
    ks.append(K("vreq_init", "VReqInit", tag(4), "vreq", "RawValueLaneRequest InitComplete"))
    for a in bl:
        ks.append(K(f"vresp_ev{a}", f"VRespEv<{a}>", tag(3) + lay_wlb(a), "vresp",
                    f"RawValueLaneResponse StandardEvent, {a}-byte body"))
        ks.append(K(f"vresp_syncev{a}", f"VRespSyncEv<{a}>", tag(1) + field("id", 16) + lay_wlb(a), "vresp",
                    f"RawValueLaneResponse SyncEvent(id), {a}-byte body"))
    ks.append(K("vresp_init", "VRespInit", tag(5), "vresp", "RawValueLaneResponse Initialized"))
    ks.append(K("vresp_synced", "VRespSynced", tag(2) + field("id", 16), "vresp", "RawValueLaneResponse Synced(id)"))
    for a, b in kv:
        ks.append(K(f"mop_upd{a}_{b}", f"MopUpd<{a}, {b}>", lay_mop_upd(a, b), "mop",
                    f"RawMapOperation Update key {a} value {b} bytes"))
    for a in bl:
        ks.append(K(f"mop_rem{a}", f"MopRem<{a}>", lay_mop_rem(a), "mop", f"RawMapOperation Remove key {a} bytes"))
    ks.append(K("mop_clr", "MopClr", lay_mop_clr(), "mop", "RawMapOperation Clear"))
    for a, b in kv:
        ks.append(K(f"mmsg_upd{a}_{b}", f"MmsgUpd<{a}, {b}>", lay_mop_upd(a, b), "mmsg",
                    f"RawMapMessage Update key {a} value {b} bytes"))
    for a in bl:
        ks.append(K(f"mmsg_rem{a}", f"MmsgRem<{a}>", lay_mop_rem(a), "mmsg", f"RawMapMessage Remove key {a} bytes"))
    ks.append(K("mmsg_clr", "MmsgClr", lay_mop_clr(), "mmsg", "RawMapMessage Clear"))
    ks.append(K("mmsg_take", "MmsgTake", lay_mmsg_n(3), "mmsg", "RawMapMessage Take(n)"))
    ks.append(K("mmsg_drop", "MmsgDrop", lay_mmsg_n(4), "mmsg", "RawMapMessage Drop(n)"))
    for a, b in kv:
        ks.append(K(f"mreq_upd{a}_{b}", f"MReqUpd<{a}, {b}>", tag(0) + lay_mop_upd(a, b), "mreq",
                    f"RawMapLaneRequest Command(Update key {a} value {b})"))
    for a in bl:
        ks.append(K(f"mreq_rem{a}", f"MReqRem<{a}>", tag(0) + lay_mop_rem(a), "mreq",
                    f"RawMapLaneRequest Command(Remove key {a})"))
    ks.append(K("mreq_clr", "MReqClr", tag(0) + lay_mop_clr(), "mreq", "RawMapLaneRequest Command(Clear)"))
    ks.append(K("mreq_take", "MReqTake", tag(0) + lay_mmsg_n(3), "mreq", "RawMapLaneRequest Command(Take(n))"))
    ks.append(K("mreq_sync", "MReqSync", tag(1) + field("id", 16), "mreq", "RawMapLaneRequest Sync(id)"))
    ks.append(K("mreq_init", "MReqInit", tag(4), "mreq", "RawMapLaneRequest InitComplete"))
    for a, b in kv:
        ks.append(K(f"mresp_ev_upd{a}_{b}", f"MRespEvUpd<{a}, {b}>", tag(3) + lay_mop_upd(a, b), "mresp",
                    f"RawMapLaneResponse StandardEvent(Update key {a} value {b})"))
        ks.append(K(f"mresp_sync_upd{a}_{b}", f"MRespSyncUpd<{a}, {b}>",
                    tag(1) + field("id", 16) + lay_mop_upd(a, b), "mresp",
                    f"RawMapLaneResponse SyncEvent(id, Update key {a} value {b})"))
    for a in bl:
        ks.append(K(f"mresp_ev_rem{a}", f"MRespEvRem<{a}>", tag(3) + lay_mop_rem(a), "mresp",
                    f"RawMapLaneResponse StandardEvent(Remove key {a})"))
    ks.append(K("mresp_ev_clr", "MRespEvClr", tag(3) + lay_mop_clr(), "mresp", "RawMapLaneResponse StandardEvent(Clear)"))
    ks.append(K("mresp_synced", "MRespSynced", tag(2) + field("id", 16), "mresp", "RawMapLaneResponse Synced(id)"))
    ks.append(K("mresp_init", "MRespInit", tag(5), "mresp", "RawMapLaneResponse Initialized"))
    for a in bl:
        ks.append(K(f"vsinit_cmd{a}", f"VSInitCmd<{a}>", tag(0) + lay_wlb(a), "vsinit",
                    f"RawValueStoreInit Command, {a}-byte body"))
    ks.append(K("vsinit_done", "VSInitDone", tag(4), "vsinit", "RawValueStoreInit InitComplete"))
    for a, b in kv:
        ks.append(K(f"msinit_upd{a}_{b}", f"MSInitUpd<{a}, {b}>", tag(0) + lay_mop_upd(a, b), "msinit",
                    f"RawMapStoreInit Command(Update key {a} value {b})"))
    ks.append(K("msinit_done", "MSInitDone", tag(4), "msinit", "RawMapStoreInit InitComplete"))
    ks.append(K("sinitd", "SInitd", tag(5), "sinitd", "StoreInitializedCodec"))
    for a in bl:
        ks.append(K(f"vsresp{a}", f"VSResp<{a}>", tag(3) + lay_wlb(a), "vsresp",
                    f"RawValueStoreResponseDecoder, {a}-byte body"))
    for a, b in kv:
        ks.append(K(f"msresp_upd{a}_{b}", f"MSRespUpd<{a}, {b}>", tag(3) + lay_mop_upd(a, b), "msresp",
                    f"RawMapStoreResponseDecoder Update key {a} value {b}"))
    for a in bl:
        ks.append(K(f"msresp_rem{a}", f"MSRespRem<{a}>", tag(3) + lay_mop_rem(a), "msresp",
                    f"RawMapStoreResponseDecoder Remove key {a}"))
    ks.append(K("msresp_clr", "MSRespClr", tag(3) + lay_mop_clr(), "msresp", "RawMapStoreResponseDecoder Clear"))
    for a in bl:
        ks.append(K(f"wlb{a}", f"Wlb<{a}>", lay_wlb(a), "wlb", f"WithLengthBytesCodec, {a}-byte body"))
        ks.append(K(f"dlop{a}", f"DlOp<{a}>", lay_wlb(a), "dlop", f"DownlinkOperationDecoder, {a}-byte body"))
    for h in (0, 1):
        ks.append(K(f"cmd_register_h{h}", f"CmdRegister<{h}>",
                    tag(1 | (4 if h else 0), "flags") + lay_addr(h) + field("tid", 2), "cmd",
                    f"RawCommandMessage Register, host={'yes' if h else 'no'}, 1-byte node/lane"))
        for o in (0, 1):
            for a in bl:
                ks.append(K(f"cmd_addressed{a}_h{h}_o{o}", f"CmdAddressed<{a}, {h}, {o}>",
                            tag((4 if h else 0) | (8 if o else 0), "flags") + lay_addr(h) + lay_wlb(a), "cmd",
                            f"RawCommandMessage Addressed, host={'yes' if h else 'no'}, overwrite={o}, {a}-byte body"))
    for o in (0, 1):
        for a in bl:
            ks.append(K(f"cmd_registered{a}_o{o}", f"CmdRegistered<{a}, {o}>",
                        tag(2 | (8 if o else 0), "flags") + field("tid", 2) + lay_wlb(a), "cmd",
                        f"RawCommandMessage Registered, overwrite={o}, {a}-byte body"))
    for t, nm in enumerate(["link", "sync", "unlink"]):
        ks.append(K(f"req_{nm}", f"ReqCtl<{t}>", lay_routed(t, 0), "req", f"RawRequestMessage {nm}"))
    for a in bl:
        ks.append(K(f"req_cmd{a}", f"ReqCmd<{a}>", lay_routed(3, a), "req", f"RawRequestMessage command, {a}-byte body"))
    for t, nm in enumerate(["linked", "synced", "unlinked"]):
        ks.append(K(f"resp_{nm}", f"RespCtl<{t}>", lay_routed(4 + t, 0), "resp", f"RawResponseMessage {nm} (no body)"))
    for a in bl:
        ks.append(K(f"resp_event{a}", f"RespEvent<{a}>", lay_routed(7, a), "resp",
                    f"RawResponseMessage event, {a}-byte body"))
        if a > 0:
            ks.append(K(f"resp_unlinked_b{a}", f"RespUnlinked<{a}>", lay_routed(6, a), "resp",
                        f"RawResponseMessage unlinked with {a}-byte body"))
    return ks


# Families whose scenarios finish under CBMC (all are built on WithLengthBytesCodec: 5-10 s per
# scenario). The other families (map operations/messages, map lanes/stores, ad hoc commands, routed
# request/response) are generated only for the `calib` tier: one whole-frame decode of
# RawMapOperation Update took 140-150 s, every cut scenario of them exceeded 200 s (measured).
FEASIBLE = {"vreq", "vresp", "vsinit", "sinitd", "vsresp", "wlb", "dlop"}

def arr(exprs):
    return f"[u8; {len(exprs)}] = [{', '.join(exprs)}]"


class Gen:
    def __init__(self):
        self.src = ["// generated by lib/props/c10.py -- do not edit\n"]
        self.hs = []

    def emit(self, name, role, stmts, desc, unwind, expect_covers=True):
        body = "\n    ".join(stmts)
        self.src.append(ATTR.format(u=unwind) + f"fn {name}() {{\n    {body}\n"
                        f"    kani::cover!(true, \"reached_end\");\n}}\n")
        self.hs.append(Harness(name, role, desc, expect_covers=expect_covers))


def gen_enc(g, ks, per):
    for i in range(0, len(ks), per):
        chunk = ks[i:i + per]
        stmts = []
        for k in chunk:
            stmts.append(f"{{ let s = <{k.rust} as Kind>::spec(); let t: {arr(k.exprs())}; "
                         f"enc!({k.rust}, &s, &t, \"{k.name}\"); }}")
        g.emit(f"c10_enc_{i // per:02d}", "enc", stmts,
               {"family": "enc: real encoder output == wire layout (symbolic ids/bodies/keys)",
                "kinds": [k.name for k in chunk]}, unwind=max(k.n for k in chunk) + 2)


def cut_stmt(k, c):
    e = k.exprs()
    if c >= k.n:
        return f"{{ let t: {arr(e)}; whole!({k.rust}, &s, &t, \"{k.name},whole\"); }}"
    return (f"{{ let p: {arr(e[:c])}; let q: {arr(e[c:])}; "
            f"cut!({k.rust}, &s, &p, &q, \"{k.name},cut={c}\"); }}")


def gen_cut(g, ks, per0, only_cuts=None):
    for k in ks:
        per = per0 if k.n < 16 else max(2, per0 // 2)   # frames with a 16-byte id: 20-25 s per scenario
        cuts = list(range(k.n + 1)) if only_cuts is None else only_cuts
        for i in range(0, len(cuts), per):
            chunk = cuts[i:i + per]
            stmts = [f"let s = <{k.rust} as Kind>::spec();"] + [cut_stmt(k, c) for c in chunk]
            g.emit(f"c10_cut_{k.name}_{i // per}", f"cut:{k.name}", stmts,
                   {"family": "cut: prefix -> Ok(None); rest appended to the same buffer -> the message, buffer empty",
                    "kind": k.what, "frame_len": k.n,
                    "cuts": ["whole" if c >= k.n else c for c in chunk]}, unwind=6)
        if k.n >= 16:
            # concrete-id twins, same grouping
            for i in range(0, len(cuts), per):
                chunk = cuts[i:i + per]
                stmts = ["unsafe { FIXED_ID = true; }", f"let s = <{k.rust} as Kind>::spec();"] + [cut_stmt(k, c) for c in chunk]
                g.emit(f"c10_cutfix_{k.name}_{i // per}", f"cutfix:{k.name}", stmts,
                       {"family": "cut with a FIXED 16-byte id (twin of the symbolic-id cut harnesses): fails fast where a decoder defect "
                                  "makes the symbolic-id scenario intractable",
                        "kind": k.what, "frame_len": k.n, "cuts": ["whole" if c >= k.n else c for c in chunk]}, unwind=6)


def gen_two(g, pairs, per0):
    for k1, k2 in pairs:
        e1, e2 = k1.exprs("s1"), k2.exprs("s2")
        n1, n2 = k1.n, k2.n
        full = e1 + e2
        scen = [("whole", None)] + [("cut", c) for c in range(0, n1 + n2)]
        per = per0 if n1 + n2 < 32 else max(2, per0 // 2)
        for i in range(0, len(scen), per):
            chunk = scen[i:i + per]
            stmts = [f"let s1 = <{k1.rust} as Kind>::spec();", f"let s2 = <{k2.rust} as Kind>::spec();",
                     f"let t2: {arr(e2)};"]
            for mode, c in chunk:
                cell = f"{k1.name}+{k2.name},{'whole' if mode == 'whole' else 'cut=' + str(c)}"
                if mode == "whole":
                    stmts.append(f"{{ let p: {arr(full)}; let q: [u8; 0] = []; "
                                 f"two!({k1.rust}, {k2.rust}, &s1, &s2, &p, &q, &t2, false, \"{cell}\"); }}")
                elif c < n1:
                    stmts.append(f"{{ let p: {arr(full[:c])}; let q: {arr(full[c:])}; "
                                 f"two!({k1.rust}, {k2.rust}, &s1, &s2, &p, &q, &t2, true, \"{cell}\"); }}")
                else:
                    stmts.append(f"{{ let p: {arr(full[:c])}; let q: {arr(full[c:])}; let t2p: {arr(e2[:c - n1])}; "
                                 f"two_late!({k1.rust}, {k2.rust}, &s1, &s2, &p, &q, &t2p, \"{cell}\"); }}")
            g.emit(f"c10_two_{k1.name}__{k2.name}_{i // per}", f"two:{k1.name}+{k2.name}", stmts,
                   {"family": "two: frame1 ++ frame2 in one stream; after frame 1 the buffer is exactly (the received "
                              "part of) frame 2; both decode; buffer empty",
                    "first": k1.what, "second": k2.what,
                    "scenarios": ["whole" if m == "whole" else c for m, c in chunk]},
                   unwind=max(n2, 4) + 2)


def corrupt_sites(k):
    """[(site name, set of byte positions replaced by symbolic bytes)]"""
    sites = []
    seen = {}
    for pos, (_, role, fid) in enumerate(k.layout):
        if role == T:
            sites.append((f"tag:{fid}@{pos}", [pos]))
    for pos, (_, role, fid) in enumerate(k.layout):
        if role == L or (role == T and fid == "tag_and_len"):
            seen.setdefault(fid, []).append(pos)
    for fid, ps in seen.items():
        sites.append((f"len:{fid}@{ps[0]}", ps))
    return sites


def gen_bad(g, ks, per):
    for k in ks:
        sites = corrupt_sites(k)
        for i in range(0, len(sites), per):
            chunk = sites[i:i + per]
            stmts = []
            for site, ps in chunk:
                e = k.exprs()
                pre = []
                for j, p in enumerate(ps):
                    pre.append(f"let x{j}: u8 = kani::any();")
                    e[p] = f"x{j}"
                stmts.append(f"{{ let s = <{k.rust} as Kind>::spec(); {' '.join(pre)} let t: {arr(e)}; "
                             f"corrupt!({k.rust}, &t, \"{k.name},{site}\"); }}")
            g.emit(f"c10_bad_{k.name}_{i // per}", f"bad:{k.name}", stmts,
                   {"family": "bad: header bytes replaced by symbolic bytes, whole frame in one read: Err, Ok(None) or "
                              "a message that re-encodes to the consumed bytes; no panic / overflow",
                    "kind": k.what, "sites": [s for s, _ in chunk]}, unwind=k.n + 2)


def pre():
    shutil.copyfile(os.path.join(REPO, "Cargo.lock"), os.path.join(CRATE, "Cargo.lock"))


def pick(ks, names):
    by = {k.name: k for k in ks}
    return [by[n] for n in names]


PAIRS_QUICK = [("vreq_cmd1", "vreq_cmd1"), ("vresp_ev1", "vresp_ev1"), ("vsinit_cmd1", "vsinit_cmd1"),
               ("vsresp1", "vsresp1")]
QUICK_SKIP = {"dlop", "sinitd"}   # same layout / code path as wlb; one-byte frame
# 16-byte-id kinds cost 20-25 s per scenario: quick keeps one per decoder, thorough has all
QUICK_SKIP_KINDS = {"vresp_synced", "vresp_syncev0", "vsresp0", "vsinit_cmd0"}


def plan(tier, seed):
    maxb = 1 if tier == "quick" else 2
    allk = kinds(maxb)
    g = Gen()
    if tier == "calib":
        ks = allk
    else:
        ks = [k for k in allk if k.fam in FEASIBLE and not (tier == "quick" and (k.fam in QUICK_SKIP or k.name in QUICK_SKIP_KINDS))]
    by = {}
    for k in ks:
        by.setdefault(k.fam, []).append(k)
    gen_enc(g, ks, 8)
    gen_cut(g, ks, 8 if tier == "quick" else 10)
    # (tried: single-cut harnesses for the ad hoc command Register frame with a 900 s time-out: all timed out)
    if tier == "quick":
        pairs = [tuple(pick(ks, p)) for p in PAIRS_QUICK]
    else:
        pairs = []
        for fam, fk in by.items():
            if fam in ("dlop", "sinitd"):
                continue   # DownlinkOperationDecoder two-frame harnesses exceeded the 8 GB cap in the thorough calibration; same code path as wlb
            # per decoder family: longest kind after itself and after the shortest, and every 1-byte-body kind after itself
            # (the first version paired every kind with every representative: 399 harnesses, > 2 h)
            big = max(fk, key=lambda k: (k.n, k.name))
            small = min(fk, key=lambda k: (k.n, k.name))
            cand = [(big, big), (small, big)]
            cand += [(k, k) for k in fk if k.name[-1] == "1"]
            seen = set()
            for a, b in cand:
                if "syncev" in a.name or "syncev" in b.name:
                    continue   # SyncEvent pairs (16-byte id + body twice): 120-175 s per harness, one timed out at 900 s
                if (a.name, b.name) not in seen:
                    seen.add((a.name, b.name))
                    pairs.append((a, b))
    gen_two(g, pairs, 6 if tier == "quick" else 8)
    if tier == "calib":
        gen_bad(g, ks, 1)
    os.makedirs(GEN, exist_ok=True)
    with open(GENFILE, "w") as f:
        f.write("\n".join(g.src))
    hs = g.hs
    rnd = random.Random(seed)
    rnd.shuffle(hs)
    hs.sort(key=lambda h: 0 if h.role.startswith("two") else 1)
    grp = Group("c10_codecs", CRATE, "c10_codecs", hs, stubbing=True, jobs=6,
                timeout=1500 if tier == "quick" else 1800, mem_gb=8, pre=pre)
    meta = {
        "rule": "one obligation per (frame kind, group of cut positions) and per (ordered pair of kinds, group of "
                "cut positions); a frame kind fixes the message variant and all lengths, while ids and body bytes "
                "are symbolic; every cut position 0..len of every listed kind is enumerated (generated list), CBMC "
                "decides all contents. Three linked facts: enc (real encoder output == wire layout), cut (real "
                "decoder on layout[..c] then on the same buffer extended by layout[c..]), two (two frames in one "
                "stream: the bytes left after frame 1 are exactly frame 2)",
        "functions_encoded": [
            "swimos_utilities::encoding::WithLengthBytesCodec::{encode,decode}",
            "swimos_agent_protocol::encoding::lane::RawValueLaneRequest{Encoder,Decoder} (LaneRequestEncoder/Decoder)",
            "swimos_agent_protocol::encoding::lane::RawValueLaneResponse{Encoder,Decoder} (LaneResponseEncoder/Decoder)",
            "swimos_agent_protocol::encoding::store::RawValueStoreInit{Encoder,Decoder}, StoreInitializedCodec, "
            "RawValueStoreResponseDecoder",
            "swimos_agent_protocol::encoding::downlink::DownlinkOperationDecoder",
            "bytes::BytesMut::{extend_from_slice,advance,split_to,reserve}, Buf::get_u8/u64/u128"],
        "bounds": {"body_bytes": f"0..{maxb}", "pieces": "<= 2 reads per frame", "frames": "<= 2 per stream",
                   "kinds": sorted(k.name for k in ks), "unwind": "6 (cut), frame length + 2 (enc, two)"},
        "stubs": ["alloc::fmt::format -> empty String (text of decoder error messages only)"],
        "outside": [
            "typed (Recon) codecs: go through the Recon parser / printer (DESIGN C09 reason)",
            "RawMapOperation / RawMapMessage / RawMapLane* / RawMapStore* codecs, RawCommandMessage codec, "
            "swimos_messages Raw{Request,Response}Message codecs: harness kinds and wire layouts exist (tier "
            "`calib` generates them) but no cut scenario finished within 200 s of CBMC time (one whole-frame "
            "RawMapOperation Update decode: 140-150 s); not decided by this check",
            "corrupt tag / length family (`bad`): a symbolic tag byte or length byte did not finish within 150 s even "
            "for the smallest codec; only generated in tier `calib`. Panics on corrupt lengths are therefore NOT "
            "decided here (see the report for overflow sites found by reading)",
            "DownlinkNotification decoders (body parsed as Recon)",
            "fragmentations into three or more pieces; bodies longer than the bound",
            "capacity behaviour of the buffer: buffers are created with exactly the capacity of the scenario"],
        "assumptions": [
            "a decoder's answer depends only on its own state and the bytes in the buffer, not on the buffer's "
            "spare capacity",
            "DownlinkOperationEncoder / store response encoders are Recon-typed; their raw wire layout "
            "(length-prefixed / EVENT-tagged) is produced here by WithLengthBytesCodec / the raw lane response "
            "encoder"],
    }
    return [grp], meta
