"""Parallel cargo-kani driver, result parser, known-findings matcher, replayer, evidence writer.

Everything that *decides* a property is a CBMC verdict over a `#[kani::proof]` harness compiled
from /repo's current working tree; this file only schedules those runs and books their results.
Python stdlib only.
"""
import json
import os
import re
import shutil
import signal
import subprocess
import sys
import threading
import time

VERIF = "/verif"
REPO = "/repo"
TARGET_ROOT = os.path.join(VERIF, ".target")
GEN = os.path.join(VERIF, "kani", "gen")
REPLAYS = os.path.join(VERIF, "replays")
KNOWN = os.path.join(VERIF, "known_findings.json")

ENV = dict(os.environ)
ENV["CARGO_NET_OFFLINE"] = "true"
ENV.pop("RUSTFLAGS", None)


def log(*a):
    print(*a, flush=True)


class Harness:
    """One proof obligation = one #[kani::proof] function."""

    def __init__(self, name, role, desc, module="harness", expect_covers=True, timeout=None,
                 expect_fail=False):
        self.name = name            # bare fn name
        self.module = module        # module path inside the crate
        self.role = role            # stable key used by known_findings.json
        self.desc = desc            # what it covers (shape, bounds) -> evidence samples
        self.expect_covers = expect_covers
        self.timeout = timeout
        self.expect_fail = expect_fail  # vacuity twin: MUST come back violated

    @property
    def full(self):
        return f"{self.module}::{self.name}" if self.module else self.name


class Group:
    """A set of harnesses verified by one `cargo kani` invocation."""

    def __init__(self, key, cwd, target, harnesses, package=None, stubbing=False, jobs=8,
                 timeout=300, mem_gb=8, extra=None, pre=None):
        self.key = key
        self.cwd = cwd
        self.package = package
        self.target = target          # target-dir name under /verif/.target
        self.harnesses = harnesses
        self.stubbing = stubbing
        self.jobs = jobs
        self.timeout = timeout
        self.mem_gb = mem_gb
        self.extra = extra or []
        self.pre = pre                # callable run before cargo (e.g. copy Cargo.lock)


class Result:
    def __init__(self, h):
        self.h = h
        self.status = "missing"      # success | failed | timeout | error | unwind | missing
        self.failed = []             # [(description, location)]
        self.ignored = []            # failed CBMC checks that are not Rust errors (NaN results)
        self.covers = None           # (satisfied, total)
        self.checks = 0
        self.time = 0.0
        self.raw = ""

    @property
    def conclusive(self):
        return self.status in ("success", "failed")

    @property
    def nontrivial(self):
        if not self.conclusive:
            return False
        if not self.h.expect_covers:
            return True
        return self.covers is not None and self.covers[0] == self.covers[1] and self.covers[1] > 0


# ------------------------------------------------------------------------------------------
# memory watchdog: kills CBMC processes above the per-process cap, or the largest one when the
# machine runs out of memory. A killed harness is reported by Kani as "CBMC failed" and ends up
# inconclusive here, never as a pass.
# ------------------------------------------------------------------------------------------

class Watchdog(threading.Thread):
    def __init__(self, root_pid, cap_gb):
        super().__init__(daemon=True)
        self.root = root_pid
        self.cap_kb = int(cap_gb * 1024 * 1024)
        self.stop = False
        self.killed = 0

    def descendants(self):
        children = {}
        procs = {}
        for pid in os.listdir("/proc"):
            if not pid.isdigit():
                continue
            try:
                with open(f"/proc/{pid}/stat") as f:
                    s = f.read()
                rp = s.rfind(")")
                comm = s[s.find("(") + 1:rp]
                fields = s[rp + 2:].split()
                ppid = int(fields[1])
                rss_kb = int(fields[21]) * 4
                procs[int(pid)] = (comm, rss_kb)
                children.setdefault(ppid, []).append(int(pid))
            except Exception:
                continue
        out = []
        stack = [self.root]
        while stack:
            p = stack.pop()
            for c in children.get(p, []):
                out.append((c,) + procs[c])
                stack.append(c)
        return out

    def run(self):
        while not self.stop:
            time.sleep(2)
            try:
                ds = [d for d in self.descendants() if d[1] in ("cbmc", "goto-instrument", "cadical", "kissat")]
                for pid, comm, rss in ds:
                    if rss > self.cap_kb:
                        os.kill(pid, signal.SIGKILL)
                        self.killed += 1
                avail = 0
                with open("/proc/meminfo") as f:
                    for line in f:
                        if line.startswith("MemAvailable:"):
                            avail = int(line.split()[1])
                if avail and avail < 5 * 1024 * 1024 and ds:
                    pid = max(ds, key=lambda d: d[2])[0]
                    os.kill(pid, signal.SIGKILL)
                    self.killed += 1
            except Exception:
                pass


RE_CHECKING = re.compile(r"^(?:Thread (\d+): )?Checking harness (\S+?)\.\.\.")
RE_THREAD = re.compile(r"^Thread (\d+):\s*$")
RE_SUMMARY = re.compile(r"\*\* (\d+) of (\d+) failed")
RE_COVER = re.compile(r"\*\* (\d+) of (\d+) cover properties satisfied")
RE_TIME = re.compile(r"^Verification Time: ([0-9.]+)s")
RE_FAILED = re.compile(r"^Failed Checks: (.*)$")
IGNORED_CHECK = re.compile(r"^NaN on ")
RE_FILE = re.compile(r'^\s+File: "(.*)", line (\d+), in (.*)$')


def parse_block(res, lines):
    """Fill a Result from the terse result block of one harness."""
    res.raw = "\n".join(lines)
    verdict = None
    timed_out = False
    cbmc_failed = False
    last_fail = None
    for ln in lines:
        m = RE_SUMMARY.search(ln)
        if m:
            res.checks = int(m.group(2))
        m = RE_COVER.search(ln)
        if m:
            res.covers = (int(m.group(1)), int(m.group(2)))
        m = RE_TIME.match(ln)
        if m:
            res.time = float(m.group(1))
        m = RE_FAILED.match(ln)
        if m:
            last_fail = [m.group(1).strip().strip('"'), ""]
            if IGNORED_CHECK.match(last_fail[0]):
                # CBMC's --nan-check: producing a NaN is defined behaviour in Rust, not a panic
                res.ignored.append(last_fail)
            else:
                res.failed.append(last_fail)
            continue
        m = RE_FILE.match(ln)
        if m and last_fail is not None:
            last_fail[1] = f"{m.group(1)}:{m.group(2)} in {m.group(3)}"
            last_fail = None
        if ln.startswith("VERIFICATION:- SUCCESSFUL"):
            verdict = "success"
        elif ln.startswith("VERIFICATION:- FAILED"):
            verdict = "failed"
        if "CBMC timed out" in ln:
            timed_out = True
        if ln.startswith("CBMC failed") or "Status: ERROR" in ln:
            cbmc_failed = True
    if timed_out:
        res.status = "timeout"
    elif cbmc_failed:
        res.status = "error"
    elif verdict == "success":
        res.status = "success"
    elif verdict == "failed":
        if any("unwinding assertion" in f[0] for f in res.failed):
            res.status = "unwind"
        elif not res.failed:
            res.status = "error"
        else:
            res.status = "failed"
    else:
        res.status = "error"
    if res.covers is None and res.status == "success":
        res.covers = (0, 0)


def run_group(g, logdir):
    """Run one cargo-kani invocation; returns {full_name: Result}."""
    os.makedirs(logdir, exist_ok=True)
    if g.pre:
        g.pre()
    ensure_includes()
    ensure_playback_stubs({playback_file(g, h) for h in g.harnesses})
    results = {h.full: Result(h) for h in g.harnesses}
    if not g.harnesses:
        return results, 0.0, True
    cmd = ["cargo", "kani"]
    if g.package:
        cmd += ["-p", g.package]
    cmd += ["--target-dir", os.path.join(TARGET_ROOT, g.target), "-Z", "unstable-options"]
    if g.stubbing:
        cmd += ["-Z", "stubbing"]
    cmd += ["--harness-timeout", f"{g.timeout}s", "-j", str(g.jobs), "--output-format", "terse",
            "--exact"]
    cmd += g.extra
    for h in g.harnesses:
        cmd += ["--harness", h.full]
    logpath = os.path.join(logdir, g.key + ".log")
    t0 = time.time()
    with open(logpath, "w") as lf:
        lf.write("$ " + " ".join(cmd) + "\n")
        p = subprocess.Popen(cmd, cwd=g.cwd, env=ENV, stdout=subprocess.PIPE,
                             stderr=subprocess.STDOUT, text=True, errors="replace",
                             start_new_session=True)
        wd = Watchdog(p.pid, g.mem_gb)
        wd.start()
        current = {}      # thread id -> harness full name
        block_thread = None
        block = []
        done = 0
        build_ok = False

        def flush():
            nonlocal block, block_thread, done
            if block_thread is not None and block_thread in current:
                name = current.pop(block_thread)
                if name in results:
                    parse_block(results[name], block)
                    done += 1
                    r = results[name]
                    log(f"    [{done}/{len(g.harnesses)}] {r.h.name}: {r.status}"
                        f" ({r.time:.1f}s, {r.checks} checks"
                        + (f", failed: {[f[0] for f in r.failed]}" if r.failed else "") + ")")
            block = []
            block_thread = None

        for ln in p.stdout:
            lf.write(ln)
            ln = ln.rstrip("\n")
            m = RE_CHECKING.match(ln)
            if m:
                build_ok = True
                flush()
                tid = m.group(1) or "0"
                current[tid] = m.group(2)
                if m.group(1) is None:
                    block_thread = "0"   # sequential mode: block follows directly
                continue
            m = RE_THREAD.match(ln)
            if m:
                flush()
                block_thread = m.group(1)
                continue
            if ln.startswith("Manual Harness Summary") or ln.startswith("Complete - "):
                flush()
                continue
            if block_thread is not None:
                block.append(ln)
        flush()
        p.wait()
        wd.stop = True
    wall = time.time() - t0
    if not build_ok:
        log(f"  !! cargo kani produced no harness output for group {g.key}; see {logpath}")
        tail = subprocess.run(["tail", "-n", "40", logpath], capture_output=True, text=True).stdout
        log(tail)
    return results, wall, build_ok


# ------------------------------------------------------------------------------------------
# known findings
# ------------------------------------------------------------------------------------------

def load_known():
    if not os.path.exists(KNOWN):
        return []
    with open(KNOWN) as f:
        return json.load(f)["findings"]


def match_known(known, prop, role, label):
    """A finding is identified by the property, the assertion label(s) that state the violated
    law for a specific cell/shape (exact strings in `labels`), and optionally the harness role."""
    for k in known:
        if k.get("status") != "known" or k["property"] != prop:
            continue
        if "role" in k and k["role"] != role:
            continue
        if label in k.get("labels", []):
            return k
    return None


# ------------------------------------------------------------------------------------------
# native replay of a counterexample
# ------------------------------------------------------------------------------------------

RE_TEST = re.compile(r"```\s*\n(.*?)```", re.S)


def replay(g, h, prop, logdir):
    """Ask Kani for the concrete values, write the generated unit test where the harness module
    includes it, and run it natively (dev and release). Returns (reproduced, path)."""
    os.makedirs(os.path.join(REPLAYS, prop), exist_ok=True)
    path = os.path.join(REPLAYS, prop, h.name + ".rs")
    cmd = ["cargo", "kani"]
    if g.package:
        cmd += ["-p", g.package]
    cmd += ["--target-dir", os.path.join(TARGET_ROOT, g.target), "-Z", "unstable-options",
            "-Z", "concrete-playback", "--concrete-playback=print"]
    if g.stubbing:
        cmd += ["-Z", "stubbing"]
    cmd += ["--harness-timeout", f"{max(g.timeout, 600)}s", "--output-format", "terse", "--exact",
            "--harness", h.full] + g.extra
    out = subprocess.run(cmd, cwd=g.cwd, env=ENV, capture_output=True, text=True, errors="replace")
    text = out.stdout + out.stderr
    with open(os.path.join(logdir, f"replay_{h.name}.log"), "w") as f:
        f.write(text)
    blocks = RE_TEST.findall(text)
    # Kani prints one unit test per failed check *and* per satisfied cover; keep the failures
    blocks = [b for b in blocks if "kani_concrete_playback" in b and "Check for `cover`" not in b]
    if not blocks:
        with open(path, "w") as f:
            f.write("// Kani produced no concrete playback test for this failure.\n//" +
                    text[-3000:].replace("\n", "\n// "))
        return None, path
    test_src = "\n".join(blocks)
    with open(path, "w") as f:
        f.write(f"// counterexample for property {prop}, harness {h.full}\n"
                f"// replay: /verif/check {prop} --replay {path}\n")
        f.write(test_src)
    ok = run_playback(g, h, test_src, logdir)
    return ok, path


def playback_file(g, h):
    return os.path.join(GEN, "playback", (g.package or g.target) + "__" + h.module.replace("::", "__") + ".rs")


def run_playback(g, h, test_src, logdir):
    """Returns True when the native test FAILS (i.e. the violation reproduces)."""
    if not re.search(r"fn (kani_concrete_playback_\w+)", test_src):
        return None
    tname = "kani_concrete_playback_" + h.name
    pf = playback_file(g, h)
    os.makedirs(os.path.dirname(pf), exist_ok=True)
    reproduced = None
    try:
        with open(pf, "w") as f:
            f.write(test_src)
        for profile in (False, True):
            env = dict(ENV)
            env["CARGO_TARGET_DIR"] = os.path.join(TARGET_ROOT, g.target + "_playback")
            if profile:
                # `cargo kani playback` has no --release; emulate the release profile
                for prof in ("DEV", "TEST"):
                    env[f"CARGO_PROFILE_{prof}_OPT_LEVEL"] = "3"
                    env[f"CARGO_PROFILE_{prof}_DEBUG_ASSERTIONS"] = "false"
                    env[f"CARGO_PROFILE_{prof}_OVERFLOW_CHECKS"] = "false"
            cmd = ["cargo", "kani", "playback", "-Z", "concrete-playback"]
            if g.package:
                cmd += ["-p", g.package]
            cmd += ["--lib", "--", tname]
            out = subprocess.run(cmd, cwd=g.cwd, env=env, capture_output=True, text=True,
                                 errors="replace")
            text = out.stdout + out.stderr
            with open(os.path.join(logdir, f"playback_{h.name}{'_release' if profile else ''}.log"), "w") as f:
                f.write(" ".join(cmd) + "\n" + text)
            ran = re.findall(r"test result: (\w+)\. (\d+) passed; (\d+) failed", text)
            if sum(int(r[1]) + int(r[2]) for r in ran) == 0:
                return None
            failed = any(int(r[2]) > 0 for r in ran)
            reproduced = failed if reproduced is None else (reproduced or failed)
    finally:
        with open(pf, "w") as f:
            f.write("")
    return reproduced


# include! targets referenced by the in-crate harness modules; they must exist (possibly empty)
# for the crate to compile under cfg(kani), whichever property is being checked.
INCLUDES = [
    "swimos_runtime__timeout_coord.rs",
    "playback/swimos_runtime__timeout_coord__verif_kani.rs",
    "swimos_runtime__uplinks.rs",
    "playback/swimos_runtime__agent__task__remotes__uplink__verif_kani.rs",
    "swimos_runtime__backpressure.rs",
    "playback/swimos_runtime__backpressure__verif_kani.rs",
    "swimos_agent__queues.rs",
    "playback/swimos_agent__lanes__queues__verif_kani.rs",
    "swimos_byte_channel__channel.rs",
    "playback/swimos_byte_channel__channel__verif_kani.rs",
    "swimos_runtime__reporting.rs",
    "playback/swimos_runtime__agent__reporting__verif_kani.rs",
    "swimos_agent__value_store.rs",
    "playback/swimos_agent__stores__value__verif_kani.rs",
    "swimos_route__route_pattern.rs",
    "playback/swimos_route__route_pattern__verif_kani.rs",
    "swimos_rocks_store__plane.rs",
    "playback/swimos_rocks_store__plane__verif_kani.rs",
    "swimos_rocks_store__store_key.rs",
    "playback/swimos_rocks_store__server__verif_kani.rs",
]


def replay_file(prop, mod, path):
    """./check Cxx --replay <path>: run a saved counterexample (the unit tests Kani generated for the
    failed checks of one harness) natively against /repo's current tree. exit 1 + VIOLATION line if it
    still fails, 0 if it passes now, 2 if it cannot be run."""
    try:
        text = open(path).read()
    except OSError as e:
        log(f"cannot read {path}: {e}")
        return 2
    m = re.search(r"harness (\S+)", text.splitlines()[0]) if text else None
    if not m:
        log("replay file has no harness header")
        return 2
    full = m.group(1)
    seed = int(os.environ.get("VERIF_SEED", "0") or 0)
    for tier in ("quick", "thorough"):
        groups, _ = mod.plan(tier, seed)
        for g in groups:
            for h in g.harnesses:
                if h.full == full:
                    if g.pre:
                        g.pre()
                    ensure_includes()
                    ensure_playback_stubs({playback_file(g, hh) for hh in g.harnesses})
                    logdir = os.path.join(VERIF, ".logs", prop)
                    os.makedirs(logdir, exist_ok=True)
                    body = "\n".join(l for l in text.splitlines() if not l.startswith("// "))
                    ok = run_playback(g, h, body, logdir)
                    if ok is True:
                        log(f"VIOLATION property={prop} replay={path}")
                        return 1
                    if ok is False:
                        log(f"replay of {full} passes on the current tree")
                        return 0
                    log("native playback could not be run")
                    return 2
    log(f"harness {full} is not generated by the current plan (try another VERIF_SEED)")
    return 2


def ensure_includes():
    for rel in INCLUDES:
        p = os.path.join(GEN, rel)
        os.makedirs(os.path.dirname(p), exist_ok=True)
        if not os.path.exists(p):
            open(p, "w").close()


def ensure_playback_stubs(paths):
    for p in paths:
        os.makedirs(os.path.dirname(p), exist_ok=True)
        if not os.path.exists(p):
            open(p, "w").close()


# ------------------------------------------------------------------------------------------
# top level: run a property
# ------------------------------------------------------------------------------------------

def run_property(prop, tier, seed, groups, meta):
    """groups: list[Group]; meta: dict with functions_encoded, bounds, stubs, assumptions, rule...
    Returns the process exit code."""
    t0 = time.time()
    logdir = os.path.join(VERIF, ".logs", prop)
    shutil.rmtree(logdir, ignore_errors=True)
    os.makedirs(logdir, exist_ok=True)
    known = load_known()
    all_results = []
    solver_time = 0.0
    machinery_fail = []
    for g in groups:
        log(f"== {prop} group {g.key}: {len(g.harnesses)} harnesses, -j {g.jobs}, "
            f"timeout {g.timeout}s, cap {g.mem_gb} GB")
        results, wall, ok = run_group(g, logdir)
        if not ok:
            machinery_fail.append(f"group {g.key}: build failed")
        for r in results.values():
            all_results.append((g, r))
            solver_time += r.time

    violations = []
    known_hits = []
    inconclusive = []
    trivial = []
    discharged = 0
    for g, r in all_results:
        h = r.h
        if h.expect_fail:
            # vacuity twin: the final assert(false) must be reachable
            if r.status == "failed":
                discharged += 1
            elif r.conclusive:
                trivial.append(h.name)
            else:
                inconclusive.append((h.name, r.status))
            continue
        if not r.conclusive:
            inconclusive.append((h.name, r.status))
            continue
        if r.status == "success":
            if r.nontrivial:
                discharged += 1
            else:
                trivial.append(h.name)
            continue
        # failed
        new = []
        for desc, loc in r.failed:
            k = match_known(known, prop, h.role, desc)
            if k:
                known_hits.append((h, desc, k))
            else:
                new.append((desc, loc))
        if new:
            violations.append((g, r, new))

    by_id = {}
    for h, desc, k in known_hits:
        by_id.setdefault(k["id"], (k, []))[1].append(desc)
    for fid, (k, descs) in sorted(by_id.items()):
        log(f"KNOWN-FINDING: property={prop} {fid}: {k['what']} [failing laws: {', '.join(sorted(set(descs)))}]")

    exit_code = 0
    confirmed = 0
    for g, r, new in violations:
        h = r.h
        log(f"-- candidate violation in {h.full}: {[d for d, _ in new]}; replaying natively")
        ok, path = replay(g, h, prop, logdir)
        if ok is True:
            confirmed += 1
            log(f"VIOLATION property={prop} replay={path}")
            for d, loc in new:
                log(f"   failed: {d} at {loc}")
            exit_code = 1
        elif ok is False:
            log(f"   counterexample for {h.full} did NOT reproduce natively ({path}); "
                f"treating as machinery error")
            machinery_fail.append(f"{h.name}: non-reproducing counterexample")
        else:
            # no playback test could be produced/run (e.g. failure is not an assertion with
            # concrete values). The solver verdict stands.
            confirmed += 1
            log(f"VIOLATION property={prop} replay={path}")
            for d, loc in new:
                log(f"   failed: {d} at {loc} (solver counterexample; native playback unavailable)")
            exit_code = 1

    if exit_code == 0 and (inconclusive or trivial or machinery_fail):
        exit_code = 2
    if inconclusive:
        log(f"INCONCLUSIVE harnesses: {inconclusive}")
    if trivial:
        log(f"TRIVIAL (covers not satisfied / witness not reached): {trivial}")
    if machinery_fail:
        log(f"MACHINERY: {machinery_fail}")

    obligations = len(all_results)
    samples = []
    for g, r in all_results:
        samples.append({"harness": r.h.full, "role": r.h.role, "covers": r.h.desc,
                        "verdict": r.status, "cbmc_time_s": round(r.time, 2),
                        "cbmc_checks": r.checks,
                        "covers_satisfied": list(r.covers) if r.covers else None,
                        "failed": [f[0] for f in r.failed]})
    wall = time.time() - t0
    ev = {
        "property_id": prop,
        "tier": tier,
        "seed": seed,
        "level": "model_checking",
        "coverage": {
            "evaluations": obligations,
            "distinct_nontrivial": len({r.h.name for _, r in all_results if r.nontrivial or (r.h.expect_fail and r.status == "failed")}),
            "rule": meta.get("rule", ""),
            "samples": samples,
            "obligations": obligations,
            "discharged": discharged,
            "inconclusive": [list(x) for x in inconclusive],
            "trivial": trivial,
            "known_findings_hit": sorted({f"{h.role}:{d}" for h, d, _ in known_hits}),
            "functions_encoded": meta.get("functions_encoded", []),
            "bounds": meta.get("bounds", {}),
            "stubs": meta.get("stubs", []),
            "outside_claim": meta.get("outside", []),
            "solver": "CBMC 6.11.0 (CaDiCaL) via Kani 0.68.0",
            "solver_time_s": round(solver_time, 1),
            "checks_total": sum(r.checks for _, r in all_results),
            "exhaustive": False,
        },
        "assumptions": meta.get("assumptions", []),
        "wall_s": round(wall, 1),
        "violations": confirmed,
    }
    os.makedirs(os.path.join(VERIF, "evidence"), exist_ok=True)
    with open(os.path.join(VERIF, "evidence", prop + ".json"), "w") as f:
        json.dump(ev, f, indent=1)
    log(f"== {prop} {tier}: {obligations} obligations, {discharged} discharged, "
        f"{len(known_hits)} known-finding hits, {confirmed} violations, "
        f"{len(inconclusive)} inconclusive, solver {solver_time:.0f}s, wall {wall:.0f}s, exit {exit_code}")
    return exit_code
