#!/bin/sh
# Offline setup after a fresh restore: nothing to fetch. Creates the git-ignored scratch
# directories the checks write into; the Kani builds themselves happen inside each check
# (cargo kani is incremental, target dirs live under /verif/.target).
set -e
cd "$(dirname "$0")"
mkdir -p .target .logs kani/gen/playback replays evidence
exit 0
