#!/bin/sh
# Offline setup after a fresh restore: nothing is fetched. Creates the git-ignored scratch
# directories and warms the Kani builds (dependencies of the harness crates) so that the first
# check does not pay for them. Every check rebuilds what it needs from /repo's working tree.
cd "$(dirname "$0")"
mkdir -p .target .logs kani/gen/playback replays evidence
export CARGO_NET_OFFLINE=true
python3 tools/warm.py || true
exit 0
