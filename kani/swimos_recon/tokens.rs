//! C11 — Kani harnesses for the header quoting kernel: writer side
//! `swimos_model::literal::escape_if_needed` / `identifier::is_identifier`, reader side
//! `tokens::unescape` (what `parse_text_token` -> `string_literal` -> `resolve_escapes` runs on the
//! text between the quotes). Mounted as a child of `recon_parser::tokens` (private `unescape`).
#![allow(dead_code, unused_imports)]

use super::*;
use swimos_model::literal::escape_if_needed;

/// ASCII string of concrete length N with symbolic content.
fn ascii<const N: usize>() -> String {
    let bytes: [u8; N] = kani::any();
    let mut s = String::with_capacity(N);
    let mut i = 0;
    while i < N {
        kani::assume(bytes[i] < 0x80);
        s.push(bytes[i] as char);
        i += 1;
    }
    s
}

/// Reader: no text between quotes makes `unescape` panic (it returns Ok or Err).
/// `PREFIX` fixes the first bytes (to aim the solver at the `\uXXXX` automaton without needing
/// 6 fully symbolic bytes); the remaining `N` bytes are symbolic ASCII.
fn unescape_total<const N: usize>(prefix: &str) {
    let tail = ascii::<N>();
    let mut s = String::with_capacity(prefix.len() + N);
    s.push_str(prefix);
    s.push_str(&tail);
    let r = unescape(&s);
    kani::cover!(r.is_ok(), "accepted");
    kani::cover!(r.is_err(), "rejected");
    std::mem::forget(r);
    std::mem::forget(s);
    std::mem::forget(tail);
}

/// Writer/reader agreement: what the writer emits between the quotes for `s` is read back as `s`,
/// and the emitted text contains no raw quote, backslash-free quote or control character.
fn roundtrip<const N: usize>() {
    let s = ascii::<N>();
    let escaped = escape_if_needed(&s);
    let mut prev_backslash = false;
    for c in escaped.chars() {
        assert!(c >= '\u{20}', "C11:quoted_form_has_no_control_characters");
        assert!(c != '"' || prev_backslash, "C11:quoted_form_has_no_bare_quote");
        prev_backslash = c == '\\' && !prev_backslash;
    }
    assert!(!prev_backslash, "C11:quoted_form_does_not_end_in_a_dangling_backslash");
    let back = unescape(&escaped);
    match &back {
        Ok(t) => assert!(t.as_str() == s.as_str(), "C11:reader_recovers_what_the_writer_escaped"),
        Err(_) => assert!(false, "C11:reader_accepts_what_the_writer_escaped"),
    }
    kani::cover!(escaped.len() > s.len(), "something was escaped");
    kani::cover!(escaped.len() == s.len(), "nothing was escaped");
    std::mem::forget(back);
    std::mem::forget(escaped);
    std::mem::forget(s);
}

/// `\uXXXX` with four symbolic hex digits, no heap strings on the input side.
fn unescape_unicode_escape() {
    let mut bytes: [u8; 6] = [b'\\', b'u', 0, 0, 0, 0];
    let d: [u8; 4] = kani::any();
    let mut i = 0;
    while i < 4 {
        kani::assume(d[i].is_ascii_hexdigit());
        bytes[2 + i] = d[i];
        i += 1;
    }
    let s = unsafe { std::str::from_utf8_unchecked(&bytes) };
    let r = unescape(s);
    kani::cover!(r.is_ok(), "accepted");
    std::mem::forget(r);
}

include!("/verif/kani/gen/swimos_recon__tokens.rs");
include!("/verif/kani/gen/playback/swimos_recon__recon_parser__tokens__verif_kani.rs");
