//! C13 — the read-back half of the key kernel: `PrefixStrippedRangeConsumer::consume_next` must
//! hand back, for every stored map key, exactly the key bytes that were written (the part of the
//! stored key after `StoreKey::MAP_KEY_PREFIX_SIZE`). The inner consumer (RocksDB iterator: FFI)
//! is replaced by one that yields a single stored key produced by the real encoder.
#![allow(dead_code, unused_imports)]

use super::*;
use std::mem::ManuallyDrop;

struct OneEntry {
    key: Vec<u8>,
    value: [u8; 1],
    done: bool,
}

impl RangeConsumer for OneEntry {
    fn consume_next(&mut self) -> Result<Option<KeyValue<'_>>, StoreError> {
        if self.done {
            Ok(None)
        } else {
            self.done = true;
            Ok(Some((&self.key, &self.value)))
        }
    }
}

/// Every map key of `N` symbolic bytes under any lane id is read back as written.
fn read_back<const N: usize>() {
    let lane_id: u64 = kani::any();
    let key: [u8; N] = kani::any();
    let stored = StoreKey::Map {
        lane_id,
        key: Some(key.to_vec()),
    }
    .serialize_as_bytes();
    let v: u8 = kani::any();
    let mut consumer = ManuallyDrop::new(PrefixStrippedRangeConsumer {
        inner: OneEntry {
            key: stored,
            value: [v],
            done: false,
        },
    });
    match consumer.consume_next() {
        Ok(Some((k, val))) => {
            kani::assert(k.len() == N, "C13:read_back_key_length");
            let mut i = 0;
            while i < N {
                kani::assert(k[i] == key[i], "C13:read_back_key_is_the_key_written");
                i += 1;
            }
            kani::assert(val.len() == 1 && val[0] == v, "C13:read_back_value_unchanged");
        }
        Ok(None) => kani::assert(false, "C13:stored_entry_is_read_back"),
        Err(_) => kani::assert(false, "C13:stored_entry_is_read_back"),
    }
    let end = matches!(consumer.consume_next(), Ok(None));
    kani::assert(end, "C13:consumer_ends_after_last_entry");
    kani::cover!(true, "reached_end");
}

include!("/verif/kani/gen/swimos_rocks_store__plane.rs");
include!("/verif/kani/gen/playback/swimos_rocks_store__plane__verif_kani.rs");
