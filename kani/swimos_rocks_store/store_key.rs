//! C13 — Kani harnesses for the key-encoding kernel of `swimos_rocks_store::server`
//! (`StoreKey::{serialize_as_bytes, write_into, map_ubound_bytes}`), mounted as a child of the
//! real module. RocksDB itself (FFI) is outside; what is checked is that the byte strings handed
//! to it keep lanes and keys apart under the bytewise (lexicographic) order RocksDB uses for
//! point reads, `delete_range(start, ubound)` and prefix iteration.
#![allow(dead_code, unused_imports, unused_variables)]

use super::*;
use std::cmp::Ordering;

fn enc_map<const N: usize>(lane_id: u64, key: &[u8; N]) -> Vec<u8> {
    StoreKey::Map {
        lane_id,
        key: Some(key.to_vec()),
    }
    .serialize_as_bytes()
}

/// Start of a lane's range: what `delete_map_range` / `ranged_snapshot_consumer` use.
fn enc_prefix(lane_id: u64) -> Vec<u8> {
    StoreKey::Map { lane_id, key: None }.serialize_as_bytes()
}

fn enc_value(lane_id: u64) -> Vec<u8> {
    StoreKey::Value { lane_id }.serialize_as_bytes()
}

/// RocksDB's default comparator: bytewise, shorter string first on a tie.
fn lex(a: &[u8], b: &[u8]) -> Ordering {
    a.cmp(b)
}

fn in_range(k: &[u8], start: &[u8], ubound: &[u8]) -> bool {
    lex(start, k) != Ordering::Greater && lex(k, ubound) == Ordering::Less
}

/// Laws over two map keys of byte lengths N1, N2 with symbolic lanes and contents.
fn map_pair<const N1: usize, const N2: usize>() {
    let l1: u64 = kani::any();
    let l2: u64 = kani::any();
    let k1: [u8; N1] = kani::any();
    let k2: [u8; N2] = kani::any();
    let e1 = enc_map(l1, &k1);
    let e2 = enc_map(l2, &k2);
    let p1 = enc_prefix(l1);
    let u1 = StoreKey::map_ubound_bytes(l1);

    // shape of the encoding (what plane::map_key_extractor relies on)
    kani::assert(
        e1.len() == StoreKey::MAP_KEY_PREFIX_SIZE + N1,
        "C13:map_key_length",
    );
    kani::assert(
        e1[StoreKey::MAP_KEY_PREFIX_SIZE..] == k1[..],
        "C13:map_key_suffix_is_key",
    );
    // the lane's own keys lie inside [prefix, ubound)
    kani::assert(in_range(&e1, &p1, &u1), "C13:own_key_inside_lane_range");
    kani::assert(lex(&p1, &u1) == Ordering::Less, "C13:lane_range_nonempty");
    // injective
    let same_key = N1 == N2 && k1[..] == k2[..];
    kani::assert(
        (l1 == l2 && same_key) || e1 != e2,
        "C13:map_encoding_injective",
    );
    kani::assert(!(l1 == l2 && same_key) || e1 == e2, "C13:map_encoding_function");
    // another lane's key is never inside this lane's range
    kani::assert(
        l1 == l2 || !in_range(&e2, &p1, &u1),
        "C13:foreign_key_outside_lane_range",
    );
    kani::cover!(l1 != l2 && (l1 as u8) == 0xFF && (l2 as u8) == 0x00, "lanes 0x..FF / 0x..00");
    kani::cover!(l1 != l2 && (l1 >> 56) == 0xFF && (l1 & 0x00FF_FFFF_FFFF_FFFF) == (l2 & 0x00FF_FFFF_FFFF_FFFF), "lanes differing in the last LE byte only, 0xFF");
    kani::cover!(
        l1 == l2 && (!same_key || N1 + N2 == 0),
        "same lane (different keys whenever the lengths allow)"
    );
    std::mem::forget((e1, e2, p1, u1));
}

/// Value keys: injective, and never equal to any map key / range bound.
fn value_laws<const N: usize>() {
    let l1: u64 = kani::any();
    let l2: u64 = kani::any();
    let k: [u8; N] = kani::any();
    let v1 = enc_value(l1);
    let v2 = enc_value(l2);
    let m = enc_map(l2, &k);
    let p = enc_prefix(l2);
    let u = StoreKey::map_ubound_bytes(l2);
    kani::assert(v1.len() == 9, "C13:value_key_length");
    kani::assert((l1 == l2) == (v1 == v2), "C13:value_encoding_injective");
    kani::assert(v1 != m && v1 != p && v1 != u, "C13:value_key_never_a_map_key");
    kani::assert(!in_range(&v1, &p, &u), "C13:value_key_outside_map_ranges");
    kani::cover!(l1 == l2, "same lane: value key vs its own map keys");
    kani::cover!(l1 != l2, "different lanes");
    std::mem::forget((v1, v2, m, p, u));
}

include!("/verif/kani/gen/swimos_rocks_store__store_key.rs");
include!("/verif/kani/gen/playback/swimos_rocks_store__server__verif_kani.rs");
