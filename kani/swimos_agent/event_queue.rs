//! C02 — access to `EventQueue` private state for the agent-side map queue harnesses
//! (the harnesses themselves are mounted in `lanes::queues`, see queues.rs).
#![allow(dead_code)]
use super::*;

/// Start the queue at an arbitrary epoch (the counter wraps; no test ever reaches the wrap).
pub(crate) fn set_head_epoch<K, V>(q: &mut EventQueue<K, V>, epoch: usize) {
    q.head_epoch = epoch;
}

/// Representation invariant of the index: every queued Update/Remove for key k is found at
/// `epoch_map[k] - head_epoch`, and nothing else is indexed.
pub(crate) fn index_consistent<V>(q: &EventQueue<u8, V>) -> bool {
    let mut i = 0;
    let mut indexed = 0;
    while i < q.events.len() {
        match &q.events[i] {
            MapOperation::Update { key, .. } | MapOperation::Remove { key } => {
                match q.epoch_map.get(key) {
                    Some(e) => {
                        if e.wrapping_sub(q.head_epoch) != i {
                            return false;
                        }
                    }
                    None => return false,
                }
                indexed += 1;
            }
            MapOperation::Clear => {}
        }
        i += 1;
    }
    indexed == q.epoch_map.len()
}
