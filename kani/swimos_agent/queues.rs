//! C02 / C03 — Kani harnesses over the real agent-side map lane storage:
//! `MapStoreInner<u8, u8, WriteQueues<u8>, ArrMap>` (`update/remove/clear/pop_operation`),
//! `WriteQueues::{push_operation, sync, pop}`, `update_sync_queues`, `EventQueue::{push,pop}`,
//! `to_operation`. Shapes (sequences of operation *kinds*) are generated; inside a shape keys,
//! values, update-vs-remove and the starting epoch are symbolic.
#![allow(dead_code, unused_imports, unused_variables)]

use super::*;
use crate::map_storage::{MapBacking, MapStoreInner};

pub const NK: usize = 3;
const H: usize = 8;

/// A flat 3-slot backing map (the `MapOps` impls for std maps are thin wrappers and not the
/// subject; a heap map would only add solver cost).
#[derive(Clone, Copy, Default, Debug)]
pub struct ArrMap {
    v: [Option<u8>; NK],
}

impl MapBacking for ArrMap {
    type KeyType = u8;
    type ValueType = u8;
}

static KEYS: [u8; NK] = [0, 1, 2];

impl MapOps<u8, u8> for ArrMap {
    // concrete-index arms: a reference into the array at a *symbolic* index is a pointer with a
    // symbolic offset, which CBMC handles badly (78 s for two updates and two pops)
    fn get(&self, key: &u8) -> Option<&u8> {
        match *key {
            0 => self.v[0].as_ref(),
            1 => self.v[1].as_ref(),
            _ => self.v[2].as_ref(),
        }
    }
    fn insert(&mut self, key: u8, value: u8) -> Option<u8> {
        match key {
            0 => self.v[0].replace(value),
            1 => self.v[1].replace(value),
            _ => self.v[2].replace(value),
        }
    }
    fn remove(&mut self, key: &u8) -> Option<u8> {
        match *key {
            0 => self.v[0].take(),
            1 => self.v[1].take(),
            _ => self.v[2].take(),
        }
    }
    fn take(&mut self) -> Self {
        std::mem::take(self)
    }
    fn keys<'a>(&'a self) -> impl Iterator<Item = &'a u8>
    where
        u8: 'a,
    {
        KEYS.iter().filter(move |k| self.v[**k as usize].is_some())
    }
    const ORDERED_KEYS: bool = true;
    fn from_entries<I>(it: I) -> Self
    where
        I: IntoIterator<Item = (u8, u8)>,
    {
        let mut m = ArrMap::default();
        for (k, v) in it {
            m.v[k as usize] = Some(v);
        }
        m
    }
    fn len(&self) -> usize {
        let mut n = 0;
        let mut i = 0;
        while i < NK {
            if self.v[i].is_some() {
                n += 1;
            }
            i += 1;
        }
        n
    }
}

type Store = MapStoreInner<u8, u8, WriteQueues<u8>, ArrMap>;

fn rid(r: usize) -> Uuid {
    Uuid::from_u128(r as u128 + 1)
}

/// Values are drawn from 0..8 so that "the set of values a key held" is a 9-bit mask
/// (bit 0 = absent, bit v+1 = value v) and the oracle needs no loops.
const VALS: u8 = 8;

fn code(v: Option<u8>) -> u8 {
    match v {
        None => 0,
        Some(v) => v + 1,
    }
}

fn bit(c: u8) -> u16 {
    1u16 << c
}

pub struct Sim {
    store: Store,
    /// reference content, coded (0 absent, v+1)
    cur: [u8; NK],
    /// every coded value each key ever held: "nothing invented"
    all: [u16; NK],
    /// replica of an observer linked from the start
    obs: [u8; NK],
    syncing: [bool; 2],
    synced: [u8; 2],
    rep: [[u8; NK]; 2],
    /// per syncing remote and key: coded values held since its sync request
    window: [[u16; NK]; 2],
    popped_some: bool,
}

impl Sim {
    pub fn new() -> Sim {
        Sim::with_epoch(kani::any())
    }

    /// `epoch`: starting value of the queue's wrapping epoch counter. A *symbolic* epoch makes
    /// every `epoch - head_epoch` index into the VecDeque a symbolic expression (87 s for three
    /// pushes with concrete keys); the generated shapes therefore use 0 and values just below
    /// `usize::MAX` (wrap-around during the shape).
    pub fn with_epoch(epoch: usize) -> Sim {
        let mut store: Store = MapStoreInner::new(ArrMap::default());
        crate::event_queue::verif_kani::set_head_epoch(&mut store.queue().event_queue, epoch);
        Sim {
            store,
            cur: [0; NK],
            all: [1; NK],
            obs: [0; NK],
            syncing: [false; 2],
            synced: [0; 2],
            rep: [[0; NK]; 2],
            window: [[0; NK]; 2],
            popped_some: false,
        }
    }

    fn record(&mut self, k: usize, c: u8) {
        self.cur[k] = c;
        self.all[k] |= bit(c);
        if self.syncing[0] && self.synced[0] == 0 {
            self.window[0][k] |= bit(c);
        }
        if self.syncing[1] && self.synced[1] == 0 {
            self.window[1][k] |= bit(c);
        }
    }

    /// update of a concrete key with a symbolic value
    pub fn update_k(&mut self, k: u8) {
        let v: u8 = kani::any();
        kani::assume(v < VALS);
        self.store.update(k, v);
        self.record(k as usize, v + 1);
    }

    pub fn remove_k(&mut self, k: u8) {
        self.store.remove(&k);
        self.record(k as usize, 0);
    }

    /// update of a symbolic key among the first `nk` keys
    pub fn update_sym(&mut self, nk: u8) {
        let k: u8 = kani::any();
        kani::assume(k < nk);
        let v: u8 = kani::any();
        kani::assume(v < VALS);
        self.store.update(k, v);
        self.record(k as usize, v + 1);
    }

    pub fn update(&mut self) {
        let k: u8 = kani::any();
        kani::assume((k as usize) < NK);
        let v: u8 = kani::any();
        kani::assume(v < VALS);
        self.store.update(k, v);
        self.record(k as usize, v + 1);
    }

    pub fn remove(&mut self) {
        let k: u8 = kani::any();
        kani::assume((k as usize) < NK);
        self.store.remove(&k);
        self.record(k as usize, 0);
    }

    pub fn clear(&mut self) {
        self.store.clear();
        self.record(0, 0);
        self.record(1, 0);
        self.record(2, 0);
    }

    /// exactly what `MapLane::sync` does
    pub fn sync(&mut self, r: usize) {
        if self.syncing[r] {
            return;
        }
        // `MapLane::sync` does `content.keys().cloned().collect()`; collecting a filtered
        // iterator into a VecDeque does not finish under CBMC (a one-update shape timed out at
        // 400 s), so the same ordered key snapshot is built with explicit pushes.
        let mut keys: VecDeque<u8> = VecDeque::with_capacity(NK);
        if self.cur[0] != 0 {
            keys.push_back(0);
        }
        if self.cur[1] != 0 {
            keys.push_back(1);
        }
        if self.cur[2] != 0 {
            keys.push_back(2);
        }
        self.store.queue().sync(rid(r), keys);
        self.syncing[r] = true;
        self.rep[r] = [0; NK];
        self.window[r] = [bit(self.cur[0]), bit(self.cur[1]), bit(self.cur[2])];
    }

    pub fn check_index(&mut self) {
        assert!(
            crate::event_queue::verif_kani::index_consistent(&self.store.queue().event_queue),
            "C02:epoch_index_consistent"
        );
    }

    fn apply(rep: &mut [u8; NK], op: &MapOperation<u8, u8>) {
        match op {
            MapOperation::Update { key, value } => rep[*key as usize] = *value + 1,
            MapOperation::Remove { key } => rep[*key as usize] = 0,
            MapOperation::Clear => *rep = [0; NK],
        }
    }

    /// one `pop_operation`; returns false when the queues are empty
    pub fn pop(&mut self) -> bool {
        let resp = match self.store.pop_operation() {
            Some(r) => r,
            None => return false,
        };
        self.popped_some = true;
        // copy out of the borrow of the store
        let owned: LaneResponse<MapOperation<u8, u8>> = match resp {
            LaneResponse::StandardEvent(op) => LaneResponse::StandardEvent(copy_op(op)),
            LaneResponse::SyncEvent(id, op) => LaneResponse::SyncEvent(id, copy_op(op)),
            LaneResponse::Synced(id) => LaneResponse::Synced(id),
            LaneResponse::Initialized => LaneResponse::Initialized,
        };
        match owned {
            LaneResponse::StandardEvent(op) => {
                match &op {
                    MapOperation::Update { key, value } => {
                        assert!((*key as usize) < NK && *value < VALS, "C02:event_key_and_value_in_range");
                        assert!(self.all[*key as usize] & bit(*value + 1) != 0, "C02:event_value_was_held_by_key");
                    }
                    MapOperation::Remove { key } => {
                        assert!((*key as usize) < NK, "C02:event_key_and_value_in_range");
                    }
                    MapOperation::Clear => {}
                }
                Sim::apply(&mut self.obs, &op);
                if self.syncing[0] {
                    Sim::apply(&mut self.rep[0], &op);
                }
                if self.syncing[1] {
                    Sim::apply(&mut self.rep[1], &op);
                }
            }
            LaneResponse::SyncEvent(id, op) => {
                let n = id.as_u128();
                assert!(n == 1 || n == 2, "C03:sync_event_addressed_to_a_syncing_remote");
                let r = (n - 1) as usize;
                assert!(self.syncing[r] && self.synced[r] == 0, "C03:sync_event_only_between_sync_and_synced");
                match &op {
                    MapOperation::Update { key, value } => {
                        assert!((*key as usize) < NK && *value < VALS, "C02:event_key_and_value_in_range");
                        assert!(self.window[r][*key as usize] & bit(*value + 1) != 0,
                                "C03:sync_event_value_within_window");
                    }
                    _ => assert!(false, "C03:sync_event_is_an_update"),
                }
                Sim::apply(&mut self.rep[r], &op);
            }
            LaneResponse::Synced(id) => {
                let n = id.as_u128();
                assert!(n == 1 || n == 2, "C03:synced_addressed_to_a_syncing_remote");
                let r = (n - 1) as usize;
                assert!(self.syncing[r], "C03:synced_only_after_sync_request");
                assert!(self.synced[r] == 0, "C03:exactly_one_synced_per_request");
                self.synced[r] += 1;
                assert!(
                    self.window[r][0] & bit(self.rep[r][0]) != 0
                        && self.window[r][1] & bit(self.rep[r][1]) != 0
                        && self.window[r][2] & bit(self.rep[r][2]) != 0,
                    "C03:replica_at_synced_is_a_consistent_snapshot"
                );
            }
            LaneResponse::Initialized => assert!(false, "C03:unexpected_initialized"),
        }
        true
    }

    /// after the generated pops: everything drained, replicas converged
    pub fn end_check(mut self) {
        self.check_index();
        let more = self.store.pop_operation().is_some();
        assert!(!more, "C02:queue_drains_within_bound");
        assert!(self.store.queue().is_empty(), "C02:queues_empty_after_drain");
        assert!(self.obs[0] == self.cur[0] && self.obs[1] == self.cur[1] && self.obs[2] == self.cur[2],
                "C02:observer_replica_converges");
        if self.syncing[0] {
            assert!(self.synced[0] == 1, "C03:exactly_one_synced_per_request");
            assert!(self.rep[0][0] == self.cur[0] && self.rep[0][1] == self.cur[1] && self.rep[0][2] == self.cur[2],
                    "C03:synced_remote_converges");
        }
        if self.syncing[1] {
            assert!(self.synced[1] == 1, "C03:exactly_one_synced_per_request");
            assert!(self.rep[1][0] == self.cur[0] && self.rep[1][1] == self.cur[1] && self.rep[1][2] == self.cur[2],
                    "C03:synced_remote_converges");
        }
        kani::cover!(self.popped_some, "something was delivered");
        kani::cover!(true, "reached_end");
        std::mem::forget(self);
    }
}

fn copy_op(op: MapOperation<u8, &u8>) -> MapOperation<u8, u8> {
    match op {
        MapOperation::Update { key, value } => MapOperation::Update { key, value: *value },
        MapOperation::Remove { key } => MapOperation::Remove { key },
        MapOperation::Clear => MapOperation::Clear,
    }
}

include!("/verif/kani/gen/swimos_agent__queues.rs");
include!("/verif/kani/gen/playback/swimos_agent__lanes__queues__verif_kani.rs");
