//! C17 — Kani harnesses for `swimos_runtime::timeout_coord`, mounted as a child module of the real
//! module (so private fields `Inner.flags`, `Voter.voted` are readable / settable).
#![allow(dead_code, unused_imports, unused_variables)]

use super::*;
use std::sync::atomic::AtomicUsize;
use std::task::{Wake, Waker};

/// `futures::task::AtomicWaker` is trusted library code; under Kani its two entry points are
/// replaced (`#[kani::stub]`) by these recorders, so the harness checks *that* the coordinator
/// registers before returning `Pending` and wakes when unanimity is completed, not how the
/// waker cell is implemented. (Calling a real `Waker` goes through a `RawWakerVTable` of plain
/// function pointers, which CBMC expands over every compatible function in the binary: two
/// steps took 127 s, three did not finish.)
static mut REGISTERED: bool = false;
static mut WAKES: usize = 0;

pub fn stub_register(_w: &AtomicWaker, _waker: &Waker) {
    unsafe {
        REGISTERED = true;
    }
}

pub fn stub_wake(_w: &AtomicWaker) {
    unsafe {
        if REGISTERED {
            WAKES += 1;
            REGISTERED = false;
        }
    }
}

fn wakes() -> usize {
    unsafe { WAKES }
}

/// Native playback runs *without* the stubs (Kani cannot apply them to a unit test), so there
/// the same laws are observed through a real counting waker.
struct NativeWake;

impl Wake for NativeWake {
    fn wake(self: Arc<Self>) {
        unsafe {
            WAKES += 1;
        }
    }
}

struct CountWaker {
    stubbed: bool,
    native: Option<(Arc<NativeWake>, Waker)>,
}

impl CountWaker {
    fn new() -> CountWaker {
        // probe: is `AtomicWaker::register` the recorder stub?
        unsafe {
            REGISTERED = false;
        }
        let probe = AtomicWaker::new();
        probe.register(Waker::noop());
        let stubbed = unsafe { REGISTERED };
        unsafe {
            REGISTERED = false;
        }
        let native = if stubbed {
            None
        } else {
            let arc = Arc::new(NativeWake);
            let waker = Waker::from(arc.clone());
            Some((arc, waker))
        };
        CountWaker { stubbed, native }
    }

    fn waker(&self) -> &Waker {
        match &self.native {
            Some((_, w)) => w,
            None => Waker::noop(),
        }
    }

    fn is_registered(&self) -> bool {
        match &self.native {
            Some((arc, _)) => Arc::strong_count(arc) > 2,
            None => unsafe { REGISTERED },
        }
    }
}

fn real_flags(rx: &Receiver) -> u8 {
    rx.inner.flags.load(Ordering::SeqCst)
}

/// Reference model + laws for one operation. `m_flags` is the model bit set (who currently has
/// an outstanding vote), `ever_voted[i]` mirrors `Voter.voted`.
struct Model<const N: usize> {
    all: u8,
    flags: u8,
    ever_voted: [bool; N],
    registered: bool,
    was_unanimous: bool,
}

const OP_VOTE: u8 = 0;
const OP_RESCIND: u8 = 1;
const OP_DROP: u8 = 2;
const OP_POLL: u8 = 3;

/// Dispatch on a *concrete* slot index (the loop is unrolled), so that CBMC never indexes the
/// `Option<Voter>` array symbolically.
fn step<const N: usize>(
    m: &mut Model<N>,
    slots: &mut [Option<Voter>; N],
    rx: &mut Receiver,
    wk: &CountWaker,
    who: usize,
    op: u8,
) {
    step_ops::<N, true, true>(m, slots, rx, wk, who, op)
}

fn step_ops<const N: usize, const DROP: bool, const POLL: bool>(
    m: &mut Model<N>,
    slots: &mut [Option<Voter>; N],
    rx: &mut Receiver,
    wk: &CountWaker,
    who: usize,
    op: u8,
) {
    let mut i = 0;
    while i < N {
        if who == i {
            step_on::<N, DROP, POLL>(m, &mut slots[i], rx, wk, i, op);
        }
        i += 1;
    }
}

fn step_on<const N: usize, const DROP: bool, const POLL: bool>(
    m: &mut Model<N>,
    slot: &mut Option<Voter>,
    rx: &mut Receiver,
    wk: &CountWaker,
    who: usize,
    op: u8,
) {
    let bit = 1u8 << who;
    let all = m.all;
    let wakes_before = wakes();
    let before = m.flags;
    match op {
        OP_VOTE => {
            if let Some(v) = &*slot {
                let r = v.vote();
                m.flags |= bit;
                m.ever_voted[who] = true;
                if r == VoteResult::Unanimous {
                    assert!(m.flags == all, "C17:told_unanimous_implies_all_voting");
                }
                if before != all && m.flags == all {
                    assert!(r == VoteResult::Unanimous, "C17:completing_vote_reports_unanimous");
                }
            }
        }
        OP_RESCIND => {
            if let Some(v) = &*slot {
                let r = v.rescind();
                match r {
                    VoteResult::Unanimous => {
                        assert!(before == all, "C17:told_unanimous_implies_all_voting");
                    }
                    VoteResult::UnanimityPending => {
                        // the stop has not begun and cannot until this party votes again
                        assert!(before != all, "C17:unanimity_never_undone");
                        m.flags &= !bit;
                        assert!(real_flags(rx) & bit == 0, "C17:pending_rescind_clears_vote");
                    }
                }
            }
        }
        OP_DROP if DROP => {
            if let Some(v) = slot.take() {
                let never_voted = !m.ever_voted[who];
                if never_voted {
                    m.flags |= bit;
                    m.ever_voted[who] = true;
                }
                drop(v);
                if never_voted {
                    assert!(real_flags(rx) & bit != 0, "C17:drop_without_vote_counts_as_vote");
                }
            }
        }
        OP_POLL if POLL => {
            let mut cx = Context::from_waker(wk.waker());
            let r = Pin::new(&mut *rx).poll(&mut cx);
            assert!(r.is_ready() == (m.flags == all), "C17:ready_iff_all_voting");
            if r.is_pending() {
                assert!(wk.is_registered(), "C17:pending_poll_registers_waker");
                m.registered = true;
            }
        }
        _ => {}
    }
    assert!(real_flags(rx) == m.flags, "C17:flags_match_reference");
    if m.was_unanimous {
        assert!(m.flags == all, "C17:unanimity_never_undone");
    }
    if before != all && m.flags == all && m.registered {
        assert!(wakes() > wakes_before, "C17:waiter_woken_on_unanimity");
    }
    m.was_unanimous = m.was_unanimous || m.flags == all;
}

/// (S) genuinely symbolic sequences: who and op are symbolic at every step.
fn sequence<const N: usize>(steps: usize)
where
    [Voter; N]: NumParties,
{
    sequence_ops::<N, true, true>(steps)
}

fn sequence_ops<const N: usize, const DROP: bool, const POLL: bool>(steps: usize)
where
    [Voter; N]: NumParties,
{
    let (voters, mut rx) = multi_party_coordinator::<N>();
    let all = <[Voter; N] as NumParties>::all();
    let mut slots: [Option<Voter>; N] = voters.map(Some);
    let wk = CountWaker::new();
    let mut m = Model::<N> {
        all,
        flags: 0,
        ever_voted: [false; N],
        registered: false,
        was_unanimous: false,
    };
    let mut reached_unanimity_then_op = false;
    let mut i = 0;
    while i < steps {
        let who: usize = kani::any();
        kani::assume(who < N);
        let op: u8 = kani::any();
        kani::assume(op < 4);
        if !DROP {
            kani::assume(op != OP_DROP);
        }
        if !POLL {
            kani::assume(op != OP_POLL);
        }
        if m.was_unanimous {
            reached_unanimity_then_op = true;
        }
        step_ops::<N, DROP, POLL>(&mut m, &mut slots, &mut rx, &wk, who, op);
        i += 1;
    }
    kani::cover!(reached_unanimity_then_op, "an operation ran after unanimity");
    kani::cover!(m.registered && m.was_unanimous, "a parked waiter saw unanimity");
    kani::cover!(!m.was_unanimous, "no unanimity");
}

/// (I) one operation from an arbitrary state satisfying the representation invariant
/// `flags <= all` and `bit i set => voted[i]` (a bit is only ever set by `vote`, which also
/// sets `voted`; `rescind` clears the bit but not `voted`).
fn inductive<const N: usize>()
where
    [Voter; N]: NumParties,
{
    let (voters, mut rx) = multi_party_coordinator::<N>();
    let all = <[Voter; N] as NumParties>::all();
    let flags0: u8 = kani::any();
    kani::assume(flags0 & !all == 0);
    rx.inner.flags.store(flags0, Ordering::SeqCst);
    let mut ever_voted = [false; N];
    let mut i = 0;
    while i < N {
        let v: bool = kani::any();
        kani::assume(flags0 & (1u8 << i) == 0 || v);
        voters[i].voted.set(v);
        ever_voted[i] = v;
        i += 1;
    }
    let mut slots: [Option<Voter>; N] = voters.map(Some);
    let wk = CountWaker::new();
    let mut m = Model::<N> {
        all,
        flags: flags0,
        ever_voted,
        registered: false,
        was_unanimous: flags0 == all,
    };
    // optionally park the waiter first (only possible when not unanimous)
    let park: bool = kani::any();
    if park {
        step(&mut m, &mut slots, &mut rx, &wk, 0, OP_POLL);
    }
    let who: usize = kani::any();
    kani::assume(who < N);
    let op: u8 = kani::any();
    kani::assume(op < 4);
    step(&mut m, &mut slots, &mut rx, &wk, who, op);
    kani::cover!(flags0 == all, "started unanimous");
    kani::cover!(flags0 != all && m.flags == all && park, "completed unanimity with a parked waiter");
    kani::cover!(op == OP_RESCIND && flags0 & (1u8 << who) == 0 && ever_voted[who], "rescind with no outstanding vote");
    // forget the coordinator: the voters' Drop impls are exercised by OP_DROP, not here
    std::mem::forget(slots);
}

include!("/verif/kani/gen/swimos_runtime__timeout_coord.rs");
include!("/verif/kani/gen/playback/swimos_runtime__timeout_coord__verif_kani.rs");
