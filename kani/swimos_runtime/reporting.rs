//! C20 (counter half) — Kani harnesses for `swimos_runtime::agent::reporting`, mounted as a child
//! module of the real module so that the private `UplinkCounters` atomics are readable/settable.
//!
//! What the real code implements (read from `reporting/mod.rs`):
//!   * `count_events(n)` / `count_commands(n)`: `fetch_update(|c| Some(c.saturating_add(n)))` — the
//!     *pending* (not yet snapshotted) counter saturates at `u64::MAX`; the doc comment says so
//!     ("this will saturate"). Saturation applies to the pending counter between two snapshots,
//!     not to the all-time total.
//!   * `snapshot()`: loads `link_count` (NOT consumed) and swaps both counters to 0 with a CAS
//!     loop, returning what was pending.
//!   * `set_uplinks(n)`: plain store.
//!
//! Law stated accordingly (no more than the property demands): with all sums in `u128`,
//!   Σ snapshot deltas + pending  ==  Σ increments          while no increment ever saturated,
//!   Σ snapshot deltas + pending  <=  Σ increments          always (nothing is counted twice),
//! and a deficit can only come from an increment that pushed the pending counter to `u64::MAX`
//! (the reference model `pending' = min(pending + n, u64::MAX)` is matched exactly at every step).
#![allow(dead_code, unused_imports, unused_variables)]

use super::*;

const OP_EVENTS: u8 = 0;
const OP_COMMANDS: u8 = 1;
const OP_UPLINKS: u8 = 2;
const OP_SNAPSHOT: u8 = 3;

/// Reference model of one counter (events or commands).
#[derive(Clone, Copy)]
struct Counter {
    /// what the next snapshot must return
    pending: u64,
    /// Σ of all increments ever applied (u128: cannot overflow for < 2^64 steps)
    incremented: u128,
    /// Σ of all deltas returned by snapshots
    reported: u128,
    /// some increment hit the u64::MAX ceiling of the pending counter
    saturated: bool,
}

impl Counter {
    fn starting_at(pending: u64) -> Counter {
        // a state with `pending` unreported counts is what one increment of `pending` produces
        Counter {
            pending,
            incremented: pending as u128,
            reported: 0,
            saturated: false,
        }
    }

    fn add(&mut self, n: u64) {
        self.incremented += n as u128;
        let wide = self.pending as u128 + n as u128;
        if wide > u64::MAX as u128 {
            self.saturated = true;
            self.pending = u64::MAX;
        } else {
            self.pending = wide as u64;
        }
    }

    fn take(&mut self, delta: u64) {
        self.reported += delta as u128;
        self.pending = 0;
    }

    /// conservation laws against the value actually held by the real atomic
    fn check(&self, real_pending: u64) {
        let accounted = self.reported + real_pending as u128;
        assert!(accounted <= self.incremented, "C20:nothing_counted_twice");
        if !self.saturated {
            assert!(accounted == self.incremented, "C20:nothing_lost");
        }
        assert!(real_pending == self.pending, "C20:pending_matches_reference");
    }
}

struct Sim {
    reporter: UplinkReporter,
    reader: UplinkReportReader,
    links: u64,
    events: Counter,
    commands: Counter,
    // witnesses
    snapshots: u8,
    nonzero_delta_after_two_incs: bool,
    incs_since_snapshot: u8,
    links_read_twice: bool,
    links_set_since_snapshot: bool,
    snaps_since_set: u8,
}

impl Sim {
    fn new() -> Sim {
        let reporter = UplinkReporter::default();
        let reader = reporter.reader();
        Sim::over(reporter, reader, 0, 0, 0)
    }

    /// (I) arbitrary counter triple: the private atomics are set directly.
    fn arbitrary() -> Sim {
        let reporter = UplinkReporter::default();
        let reader = reporter.reader();
        let l: u64 = kani::any();
        let e: u64 = kani::any();
        let c: u64 = kani::any();
        reporter.counters.link_count.store(l, Ordering::SeqCst);
        reporter.counters.event_count.store(e, Ordering::SeqCst);
        reporter.counters.command_count.store(c, Ordering::SeqCst);
        Sim::over(reporter, reader, l, e, c)
    }

    fn over(reporter: UplinkReporter, reader: UplinkReportReader, l: u64, e: u64, c: u64) -> Sim {
        Sim {
            reporter,
            reader,
            links: l,
            events: Counter::starting_at(e),
            commands: Counter::starting_at(c),
            snapshots: 0,
            nonzero_delta_after_two_incs: false,
            incs_since_snapshot: 0,
            links_read_twice: false,
            links_set_since_snapshot: false,
            snaps_since_set: 0,
        }
    }

    fn real(&self) -> (u64, u64, u64) {
        let c = &self.reporter.counters;
        (
            c.link_count.load(Ordering::SeqCst),
            c.event_count.load(Ordering::SeqCst),
            c.command_count.load(Ordering::SeqCst),
        )
    }

    fn step(&mut self, op: u8, n: u64) {
        match op {
            OP_EVENTS => {
                self.reporter.count_events(n);
                self.events.add(n);
                if n > 0 && self.incs_since_snapshot < 2 {
                    self.incs_since_snapshot += 1;
                }
            }
            OP_COMMANDS => {
                self.reporter.count_commands(n);
                self.commands.add(n);
            }
            OP_UPLINKS => {
                self.reporter.set_uplinks(n);
                self.links = n;
                self.snaps_since_set = 0;
            }
            _ => {
                let snap = self.reader.snapshot();
                assert!(snap.is_some(), "C20:live_reporter_gives_snapshot");
                if let Some(UplinkSnapshot {
                    link_count,
                    event_count,
                    command_count,
                }) = snap
                {
                    assert!(link_count == self.links, "C20:link_count_is_last_value_set");
                    assert!(event_count == self.events.pending, "C20:snapshot_returns_pending_events");
                    assert!(
                        command_count == self.commands.pending,
                        "C20:snapshot_returns_pending_commands"
                    );
                    if event_count > 0 && self.incs_since_snapshot >= 2 {
                        self.nonzero_delta_after_two_incs = true;
                    }
                    self.events.take(event_count);
                    self.commands.take(command_count);
                }
                self.incs_since_snapshot = 0;
                if self.snapshots < 255 {
                    self.snapshots += 1;
                }
                if self.snaps_since_set < 2 {
                    self.snaps_since_set += 1;
                }
                if self.snaps_since_set == 2 && self.links != 0 {
                    self.links_read_twice = true;
                }
            }
        }
        let (l, e, c) = self.real();
        // the link count is never consumed (in particular not by a snapshot) nor touched by counting
        assert!(l == self.links, "C20:link_count_not_consumed");
        self.events.check(e);
        self.commands.check(c);
    }

    /// one step with symbolic operation kind and symbolic full-width argument
    fn sym_step(&mut self) -> u8 {
        let op: u8 = kani::any();
        kani::assume(op < 4);
        let n: u64 = kani::any();
        self.step(op, n);
        op
    }

    fn finish_seq(self) {
        kani::cover!(self.snapshots >= 2, "two snapshots taken");
        kani::cover!(
            self.nonzero_delta_after_two_incs,
            "a snapshot reported the sum of at least two increments"
        );
        kani::cover!(self.events.saturated, "an event increment saturated the pending counter");
        kani::cover!(
            self.commands.saturated && self.commands.reported > u64::MAX as u128,
            "commands: more than u64::MAX reported in total across snapshots"
        );
        kani::cover!(
            self.links_read_twice,
            "a non-zero link count was reported by two consecutive snapshots"
        );
        kani::cover!(
            !self.events.saturated && self.events.reported > u64::MAX as u128,
            "events: total above u64::MAX reported exactly (no saturation)"
        );
        std::mem::forget(self);
    }
}

/// (I) one (or `extra + 1`) symbolic operation(s) from an arbitrary counter triple.
fn inductive(extra: usize) {
    let mut s = Sim::arbitrary();
    let (l0, e0, c0) = s.real();
    let op = s.sym_step();
    let mut i = 0;
    while i < extra {
        s.sym_step();
        i += 1;
    }
    kani::cover!(op == OP_EVENTS && s.events.saturated, "increment from a state near the ceiling saturates");
    kani::cover!(op == OP_EVENTS && !s.events.saturated && e0 > 0, "increment on a non-zero counter without saturation");
    kani::cover!(op == OP_SNAPSHOT && e0 == u64::MAX && c0 == u64::MAX, "snapshot of saturated counters");
    kani::cover!(op == OP_SNAPSHOT && l0 == u64::MAX, "snapshot with link count u64::MAX");
    kani::cover!(op == OP_UPLINKS && l0 != s.links, "link count changed");
    std::mem::forget(s);
}

/// Reader liveness: `snapshot()` is `Some` exactly while some clone of the reporter is alive;
/// `prefix` symbolic steps run first so that the counters hold arbitrary reachable values when
/// the reporter goes away (pending counts are then unobservable — the reader returns `None`).
fn dropped(prefix: usize) {
    let mut s = Sim::new();
    let mut i = 0;
    while i < prefix {
        s.sym_step();
        i += 1;
    }
    let Sim {
        reporter,
        reader,
        links,
        events,
        commands,
        ..
    } = s;
    let second = reporter.clone();
    let reader2 = reader.clone();
    drop(reporter);
    assert!(reader.is_active(), "C20:reader_active_while_a_reporter_clone_lives");
    let snap = reader.snapshot();
    assert!(snap.is_some(), "C20:live_reporter_gives_snapshot");
    if let Some(sn) = snap {
        assert!(sn.link_count == links, "C20:link_count_is_last_value_set");
        assert!(sn.event_count == events.pending, "C20:snapshot_returns_pending_events");
        assert!(sn.command_count == commands.pending, "C20:snapshot_returns_pending_commands");
    }
    second.count_events(1);
    drop(second);
    assert!(!reader.is_active(), "C20:reader_inactive_after_reporter_dropped");
    assert!(reader.snapshot().is_none(), "C20:dropped_reporter_reads_none");
    assert!(reader2.snapshot().is_none(), "C20:dropped_reporter_reads_none");
    kani::cover!(events.pending > 0 && links > 0, "reporter dropped with pending counts and links");
    std::mem::forget(reader);
    std::mem::forget(reader2);
}

include!("/verif/kani/gen/swimos_runtime__reporting.rs");
include!("/verif/kani/gen/playback/swimos_runtime__agent__reporting__verif_kani.rs");
