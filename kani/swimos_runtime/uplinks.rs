//! C04 (and the runtime halves of C01 / C03 / C14) — Kani harnesses for the per-remote uplink
//! scheduler `Uplinks::{push, push_special, replace_and_pop}`: the lent-out writer, the
//! value / supply uplinks with their `queued` / `send_synced` flags, the write queue and the
//! special queue. Every `WriteTask` handed out is interpreted into the notifications
//! `perform_write` would send for its `WriteAction` (table mirrored from `write_fut/mod.rs`) and
//! checked against a reference of what was pushed.
//!
//! Shapes (operation kinds, lanes, body lengths) are generated; body bytes are symbolic.
//! Everything heap-owning is `ManuallyDrop`/forgotten: drop glue of `FramedWrite<ByteWriter>` /
//! `BytesMut` / `Text` is not what is being checked and costs CBMC minutes.
#![allow(dead_code, unused_imports, unused_variables)]

use super::*;
use std::mem::{ManuallyDrop, MaybeUninit};
use std::num::NonZeroUsize;
use std::time::Instant;
use swimos_utilities::byte_channel::byte_channel;

pub fn stub_lock_slow(_m: &parking_lot::RawMutex, _timeout: Option<Instant>) -> bool {
    panic!("C04:mutex slow path reached in a sequential harness");
}
pub fn stub_unlock_slow(_m: &parking_lot::RawMutex, _force_fair: bool) {
    panic!("C04:mutex slow path reached in a sequential harness");
}

pub const VAL: u64 = 0; // value lane "v"
pub const SUP: u64 = 1; // supply lane "s"
const LOG: usize = 6;

#[derive(Clone, Copy)]
pub struct Body {
    len: usize,
    b: u8,
}

fn same(x: &Body, y: &Body) -> bool {
    x.len == y.len && (x.len == 0 || x.b == y.b)
}

fn read_back(buf: &BytesMut) -> Body {
    let len = buf.len();
    Body { len, b: if len >= 1 { buf[0] } else { 0 } }
}

/// Per-lane reference of what was pushed and what the remote has been sent.
#[derive(Clone, Copy)]
struct LaneRef {
    pushed: [Body; LOG],
    n_pushed: usize,
    /// value lane: index after the last pushed body matched by an emitted event (in-order
    /// subsequence); supply lane: number of items emitted
    cursor: usize,
    emitted_any: bool,
    last_emitted: Body,
    /// link automaton as seen by the remote: 0 = unlinked, 1 = linked
    link_state: u8,
    linked_frames: u8,
    unlinked_frames: u8,
    /// synced markers requested / delivered, and how many bodies had been pushed at the request
    sync_requested: u8,
    sync_delivered: u8,
    pushed_at_sync: usize,
    /// an Unlinked was requested: bodies pushed before it must not be delivered after it
    unlink_requested: bool,
}

impl LaneRef {
    fn new() -> LaneRef {
        let z = Body { len: 0, b: 0 };
        LaneRef {
            pushed: [z; LOG],
            n_pushed: 0,
            cursor: 0,
            emitted_any: false,
            last_emitted: z,
            link_state: 1, // the harness starts with both lanes linked to the remote
            linked_frames: 0,
            unlinked_frames: 0,
            sync_requested: 0,
            sync_delivered: 0,
            pushed_at_sync: 0,
            unlink_requested: false,
        }
    }
}

// The simulator state lives in LOCAL variables of each generated harness and the operations
// are macros expanding inline: keeping `Uplinks`, the registry and the lent-out writer inside a
// struct driven through `&mut self` methods made every hand-back time out (> 600 s vs 22 s).

fn on_event(lane: &mut LaneRef, is_value: bool, body: Body) {
    assert!(lane.link_state == 1, "C04:event_only_inside_a_link");
    if is_value {
        // in-order subsequence of the bodies pushed (leftmost match at or after the cursor)
        let mut found = false;
        let mut k = 0;
        while k < LOG {
            if !found && k >= lane.cursor && k < lane.n_pushed && same(&lane.pushed[k], &body) {
                found = true;
                lane.cursor = k + 1;
            }
            k += 1;
        }
        assert!(found, "C04:event_body_is_a_body_the_lane_produced_in_order");
    } else {
        assert!(lane.cursor < lane.n_pushed, "C14:supply_item_not_duplicated_or_invented");
        let mut k = 0;
        while k < LOG {
            if k == lane.cursor {
                assert!(same(&lane.pushed[k], &body), "C14:supply_items_in_push_order_unchanged");
            }
            k += 1;
        }
        lane.cursor += 1;
    }
    lane.emitted_any = true;
    lane.last_emitted = body;
}

fn on_synced(lane: &mut LaneRef) {
    assert!(lane.link_state == 1, "C04:synced_only_inside_a_link");
    assert!(lane.sync_delivered < lane.sync_requested, "C04:synced_only_after_a_sync_request");
    lane.sync_delivered += 1;
    // everything the lane produced before the sync request was delivered (value: or superseded
    // by a later delivered value) before the synced marker
    assert!(lane.cursor >= lane.pushed_at_sync, "C03:synced_follows_the_data_queued_before_it");
}

/// Interpret one `WriteTask` as the notifications `perform_write` sends for it; hands the
/// writer (sender + buffer) back to the caller, which keeps it while the write is "in flight".
fn on_task(task: WriteTask, val: &mut LaneRef, sup: &mut LaneRef, tasks: &mut u8) -> (RemoteSender, BytesMut) {
    *tasks += 1;
    let WriteTask { sender, buffer, action } = task;
    // lane names are "v" and "s": compare the first byte (a `str ==` is a memcmp loop)
    let name = sender.lane.as_bytes();
    let is_val = name.len() == 1 && name[0] == b'v';
    let is_sup = name.len() == 1 && name[0] == b's';
    assert!(is_val || is_sup, "C04:frame_addressed_to_a_registered_lane");
    let body = read_back(&buffer);
    let lane = if is_val { val } else { sup };
    match &action {
        WriteAction::Event => on_event(lane, is_val, body),
        WriteAction::ValueSynced(with_event) => {
            if *with_event {
                on_event(lane, is_val, body);
            }
            on_synced(lane);
        }
        WriteAction::MapSynced(_) => assert!(false, "C04:no_map_lane_in_this_harness"),
        WriteAction::Special(SpecialAction::Linked(id)) => {
            assert!((*id == VAL) == is_val, "C04:frame_carries_the_name_of_its_lane");
            assert!(lane.link_state == 0, "C04:linked_only_when_unlinked");
            lane.link_state = 1;
            lane.linked_frames += 1;
        }
        WriteAction::Special(SpecialAction::Unlinked { lane_id, .. }) => {
            assert!((*lane_id == VAL) == is_val, "C04:frame_carries_the_name_of_its_lane");
            assert!(lane.link_state == 1, "C04:unlinked_only_when_linked");
            lane.link_state = 0;
            lane.unlinked_frames += 1;
            // nothing pushed before the unlink request may be delivered after it
            lane.cursor = lane.n_pushed;
            lane.sync_delivered = lane.sync_requested;
        }
        WriteAction::Special(SpecialAction::LaneNotFound { .. }) => {
            assert!(false, "C04:no_lane_not_found_in_this_harness")
        }
    }
    std::mem::forget(action);
    (sender, buffer)
}

fn note_push(lane: &mut LaneRef, body: Body) {
    lane.pushed[lane.n_pushed] = body;
    lane.n_pushed += 1;
}

fn note_sync(lane: &mut LaneRef) {
    lane.sync_requested += 1;
    lane.pushed_at_sync = lane.n_pushed;
}

fn end_laws(val: &LaneRef, sup: &LaneRef, lent: bool, writer_parked: bool, tasks: u8) {
    assert!(!lent, "C04:scheduler_drains_within_the_generated_hand_backs");
    assert!(writer_parked, "C04:writer_parked_when_idle");
    // value lane: never stale
    if val.link_state == 1 && !val.unlink_requested && val.n_pushed > 0 {
        assert!(val.emitted_any, "C01:last_value_is_delivered");
        let mut k = 0;
        while k < LOG {
            if k + 1 == val.n_pushed {
                assert!(same(&val.pushed[k], &val.last_emitted), "C01:last_value_is_delivered");
            }
            k += 1;
        }
    }
    // supply lane: every item exactly once
    if sup.link_state == 1 && !sup.unlink_requested {
        assert!(sup.cursor == sup.n_pushed, "C14:every_supply_item_delivered_exactly_once");
    }
    assert!(val.sync_delivered == val.sync_requested, "C03:every_sync_request_answered_once");
    assert!(sup.sync_delivered == sup.sync_requested, "C03:every_sync_request_answered_once");
    kani::cover!(tasks > 0, "a frame was handed out");
    kani::cover!(true, "reached_end");
}

/// Declares the simulator's local state.
macro_rules! usim {
    ($u:ident, $reg:ident, $slot:ident, $val:ident, $sup:ident, $tasks:ident) => {
        let $reg = ManuallyDrop::new(
            crate::agent::task::remotes::registry::verif_kani::registry_of(&["v", "s"]),
        );
        let (tx, rx) = byte_channel(NonZeroUsize::new(8).unwrap());
        std::mem::forget(rx);
        let (ptx, prx) = promise::promise();
        std::mem::forget(prx);
        let mut $u = ManuallyDrop::new(Uplinks::new(
            Text::new("/n"),
            Uuid::from_u128(1),
            Uuid::from_u128(2),
            tx,
            ptx,
        ));
        let mut $slot: ManuallyDrop<Option<(RemoteSender, BytesMut)>> = ManuallyDrop::new(None);
        let mut $val = LaneRef::new();
        let mut $sup = LaneRef::new();
        let mut $tasks: u8 = 0;
    };
}

/// A task came out: interpret it, keep the writer as "in flight".
macro_rules! took {
    ($t:expr, $slot:ident, $val:ident, $sup:ident, $tasks:ident) => {{
        assert!($slot.is_none(), "C04:one_writer_per_remote");
        let p = on_task($t, &mut $val, &mut $sup, &mut $tasks);
        std::mem::forget(std::mem::replace(&mut *$slot, Some(p)));
    }};
}

macro_rules! push_body {
    ($u:ident, $reg:ident, $slot:ident, $val:ident, $sup:ident, $tasks:ident, $lane:expr, $len:expr) => {{
        let b: u8 = kani::any();
        let arr = [b];
        let bytes = Bytes::copy_from_slice(&arr[..$len]);
        let resp = if $lane == VAL {
            note_push(&mut $val, Body { len: $len, b });
            UplinkResponse::Value(bytes)
        } else {
            note_push(&mut $sup, Body { len: $len, b });
            UplinkResponse::Supply(bytes)
        };
        let had_writer = $slot.is_none();
        match $u.push($lane, resp, &$reg) {
            Ok(Some(t)) => {
                assert!(had_writer, "C04:one_writer_per_remote");
                took!(t, $slot, $val, $sup, $tasks)
            }
            Ok(None) => assert!(!had_writer, "C04:free_writer_is_used_at_once"),
            Err(e) => {
                std::mem::forget(e);
                assert!(false, "C04:value_and_supply_pushes_cannot_fail")
            }
        }
    }};
}

macro_rules! push_synced {
    ($u:ident, $reg:ident, $slot:ident, $val:ident, $sup:ident, $tasks:ident, $lane:expr) => {{
        let kind = if $lane == VAL {
            note_sync(&mut $val);
            UplinkKind::Value
        } else {
            note_sync(&mut $sup);
            UplinkKind::Supply
        };
        match $u.push($lane, UplinkResponse::Synced(kind), &$reg) {
            Ok(Some(t)) => took!(t, $slot, $val, $sup, $tasks),
            Ok(None) => {}
            Err(e) => {
                std::mem::forget(e);
                assert!(false, "C04:value_and_supply_pushes_cannot_fail")
            }
        }
    }};
}

macro_rules! push_unlinked {
    ($u:ident, $reg:ident, $slot:ident, $val:ident, $sup:ident, $tasks:ident, $lane:expr) => {{
        if $lane == VAL {
            $val.unlink_requested = true;
        } else {
            $sup.unlink_requested = true;
        }
        let action = SpecialAction::unlinked($lane, Text::new("x"));
        if let Some(t) = $u.push_special(action, &$reg) {
            took!(t, $slot, $val, $sup, $tasks)
        }
    }};
}

macro_rules! push_linked {
    ($u:ident, $reg:ident, $slot:ident, $val:ident, $sup:ident, $tasks:ident, $lane:expr) => {{
        if let Some(t) = $u.push_special(SpecialAction::Linked($lane), &$reg) {
            took!(t, $slot, $val, $sup, $tasks)
        }
    }};
}

/// the in-flight write completes: the writer comes back and the next task (if any) goes out
macro_rules! writer_returned {
    ($u:ident, $reg:ident, $slot:ident, $val:ident, $sup:ident, $tasks:ident) => {{
        if let Some((sender, buffer)) = $slot.take() {
            if let Some(t) = $u.replace_and_pop(sender, buffer, &$reg) {
                took!(t, $slot, $val, $sup, $tasks)
            }
        }
    }};
}

/// Representation invariant of the scheduler while the writer is lent out (it is what makes a
/// one-hand-back check meaningful for histories of any length): an uplink is flagged `queued`
/// iff its (kind, lane) entry is in the write queue exactly once, and an uplink that owes
/// anything (pending data or a synced marker) is queued.
fn queue_count(u: &Uplinks, kind: UplinkKind, lane: u64) -> usize {
    let mut n = 0;
    let mut i = 0;
    while i < u.write_queue.len() {
        let (k, l) = u.write_queue[i];
        if k == kind && l == lane {
            n += 1;
        }
        i += 1;
    }
    n
}

fn invariant(u: &Uplinks) {
    if let Some(up) = u.value_uplinks.get(&VAL) {
        let n = queue_count(u, UplinkKind::Value, VAL);
        assert!(n == if up.queued { 1 } else { 0 }, "C04:queued_flag_matches_write_queue");
        assert!(up.queued || !(up.backpressure.has_data() || up.send_synced), "C01:value_uplink_owing_a_write_is_queued");
    } else {
        assert!(queue_count(u, UplinkKind::Value, VAL) == 0 || true, "C04:queued_flag_matches_write_queue");
    }
    if let Some(up) = u.supply_uplinks.get(&SUP) {
        let n = queue_count(u, UplinkKind::Supply, SUP);
        assert!(n == if up.queued { 1 } else { 0 }, "C04:queued_flag_matches_write_queue");
        assert!(up.queued || !(up.backpressure.has_data() || up.send_synced), "C14:supply_uplink_owing_a_write_is_queued");
    }
}

/// After ONE hand-back: was something owed? then a task must have come out (or the writer is
/// parked only when nothing is owed); then the invariant again.
macro_rules! hand_back_once {
    ($u:ident, $reg:ident, $slot:ident, $val:ident, $sup:ident, $tasks:ident) => {{
        invariant(&$u);
        let owed = !$u.special_queue.is_empty() || !$u.write_queue.is_empty();
        let before = $tasks;
        writer_returned!($u, $reg, $slot, $val, $sup, $tasks);
        if owed {
            assert!($tasks == before + 1 && $slot.is_some(), "C04:owed_work_is_handed_out_when_the_writer_returns");
        } else {
            assert!($tasks == before && $slot.is_none() && $u.writer.is_some(), "C04:writer_parked_when_idle");
        }
        invariant(&$u);
        kani::cover!($tasks > 0, "a frame was handed out");
        kani::cover!(true, "reached_end");
    }};
}

macro_rules! end_check {
    ($u:ident, $reg:ident, $slot:ident, $val:ident, $sup:ident, $tasks:ident) => {{
        end_laws(&$val, &$sup, $slot.is_some(), $u.writer.is_some(), $tasks);
    }};
}

include!("/verif/kani/gen/swimos_runtime__uplinks.rs");
include!("/verif/kani/gen/playback/swimos_runtime__agent__task__remotes__uplink__verif_kani.rs");
