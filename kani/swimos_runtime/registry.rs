//! Builds a `LaneRegistry` for the uplink harnesses without going through `add_endpoint`
//! (its `tracing::debug!` call makes the Kani compiler panic: intrinsics.rs:243).
use super::*;

pub(crate) fn registry_of(names: &[&str]) -> LaneRegistry {
    let mut r = LaneRegistry::default();
    for n in names {
        let id = r.next_id();
        let name = Text::new(n);
        r.lane_names.insert(name.clone(), id);
        r.lane_names_rev.insert(id, name);
    }
    r
}
