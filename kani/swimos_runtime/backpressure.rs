//! C07 / C14 — Kani harnesses for the runtime backpressure strategies
//! (`ValueBackpressure`, `SupplyBackpressure`), driven exactly as their callers drive them:
//!  * the downlink write task (`downlink/mod.rs`): idle → `write_direct` and a write is in flight;
//!    while in flight → `push_operation`; on completion → `if has_data() { prepare_write; write }`
//!    else idle;
//!  * the supply uplink (`remotes/uplink/mod.rs`): `push_bytes` while the writer is lent out, then
//!    `had_data = has_data(); prepare_write(..)` per hand-back, re-queued while `has_data()`.
//! Shapes (operation kinds and body lengths) are generated; body bytes are symbolic.
#![allow(dead_code, unused_imports)]
use super::*;
use std::mem::ManuallyDrop;

pub const MAXB: usize = 2;

/// A submitted / emitted body: length (concrete in every shape) and bytes (symbolic).
#[derive(Clone, Copy)]
pub struct Body {
    len: usize,
    b: [u8; MAXB],
}

fn same(x: &Body, y: &Body) -> bool {
    x.len == y.len && (x.len < 1 || x.b[0] == y.b[0]) && (x.len < 2 || x.b[1] == y.b[1])
}

fn any_body(len: usize) -> (Body, Bytes) {
    let b: [u8; MAXB] = kani::any();
    (Body { len, b }, Bytes::copy_from_slice(&b[..len]))
}

fn read_back(buf: &BytesMut) -> Body {
    let mut b = [0u8; MAXB];
    let len = buf.len();
    if len >= 1 {
        b[0] = buf[0];
    }
    if len >= 2 {
        b[1] = buf[1];
    }
    Body { len, b }
}

/// The downlink write task's use of a `BackpressureStrategy` over `DownlinkOperation<Bytes>`.
pub struct WriteTaskModel<S: BackpressureStrategy<Operation = DownlinkOperation<Bytes>>> {
    strategy: ManuallyDrop<S>,
    buffer: ManuallyDrop<BytesMut>,
    writing: bool,
    /// reference: everything submitted, and everything emitted as a frame (bounded logs)
    submitted: [Body; 6],
    n_sub: usize,
    emitted: [Body; 6],
    n_emit: usize,
}

impl<S: BackpressureStrategy<Operation = DownlinkOperation<Bytes>> + Default> WriteTaskModel<S> {
    pub fn new() -> Self {
        let z = Body { len: 0, b: [0; MAXB] };
        WriteTaskModel {
            strategy: ManuallyDrop::new(S::default()),
            buffer: ManuallyDrop::new(BytesMut::new()),
            writing: false,
            submitted: [z; 6],
            n_sub: 0,
            emitted: [z; 6],
            n_emit: 0,
        }
    }

    fn emit(&mut self) {
        self.emitted[self.n_emit] = read_back(&self.buffer);
        self.n_emit += 1;
        self.writing = true;
    }

    /// a consumer submits a command with a body of `len` symbolic bytes
    pub fn submit(&mut self, len: usize) {
        let (body, bytes) = any_body(len);
        self.submitted[self.n_sub] = body;
        self.n_sub += 1;
        let op = DownlinkOperation { body: bytes };
        if self.writing {
            let r = self.strategy.push_operation(op);
            assert!(r.is_ok(), "C07:push_operation_accepts_the_command");
        } else {
            self.strategy.write_direct(op, &mut self.buffer);
            self.emit();
        }
    }

    /// the in-flight write completes
    pub fn complete(&mut self) {
        if !self.writing {
            return;
        }
        if self.strategy.has_data() {
            self.strategy.prepare_write(&mut self.buffer);
            self.emit();
        } else {
            self.writing = false;
        }
    }

    pub fn idle(&self) -> bool {
        !self.writing
    }
}

/// Value semantics (C07): the frames sent are an in-order subsequence of the commands
/// submitted, and once the task is idle the last frame sent is the last command submitted
/// (only superseded commands were dropped).
pub fn check_value_relief(m: &WriteTaskModel<ValueBackpressure>) {
    assert!(m.idle(), "C07:task_becomes_idle_after_the_generated_completions");
    // subsequence: greedy match with concrete indices
    let mut j = 0;
    let mut i = 0;
    let mut ok = true;
    while i < 6 {
        if i < m.n_emit {
            // advance j to the first submitted body equal to emitted[i] at or after j
            let mut found = false;
            let mut k = 0;
            while k < 6 {
                if !found && k >= j && k < m.n_sub && same(&m.submitted[k], &m.emitted[i]) {
                    found = true;
                    j = k + 1;
                }
                k += 1;
            }
            if !found {
                ok = false;
            }
        }
        i += 1;
    }
    assert!(ok, "C07:frames_are_an_in_order_subsequence_of_the_commands");
    if m.n_sub > 0 {
        assert!(m.n_emit > 0, "C07:last_command_is_sent");
        assert!(same(&m.emitted[m.n_emit - 1], &m.submitted[m.n_sub - 1]), "C07:last_command_is_sent");
    }
    kani::cover!(true, "reached_end");
}

/// The supply uplink's use of `SupplyBackpressure` while the remote's writer is lent out (C14).
pub struct SupplyModel {
    strategy: ManuallyDrop<SupplyBackpressure>,
    buffer: ManuallyDrop<BytesMut>,
    pushed: [Body; 6],
    n_push: usize,
    handed: [Body; 6],
    n_hand: usize,
}

impl SupplyModel {
    pub fn new() -> Self {
        let z = Body { len: 0, b: [0; MAXB] };
        SupplyModel {
            strategy: ManuallyDrop::new(SupplyBackpressure::default()),
            buffer: ManuallyDrop::new(BytesMut::new()),
            pushed: [z; 6],
            n_push: 0,
            handed: [z; 6],
            n_hand: 0,
        }
    }

    pub fn push(&mut self, len: usize) {
        let (body, bytes) = any_body(len);
        self.pushed[self.n_push] = body;
        self.n_push += 1;
        self.strategy.push_bytes(bytes);
    }

    /// one hand-back of the writer: what `replace_and_pop` does for a queued supply uplink
    pub fn pop(&mut self) {
        let had_data = self.strategy.has_data();
        BackpressureStrategy::prepare_write(&mut *self.strategy, &mut *self.buffer);
        if had_data {
            self.handed[self.n_hand] = read_back(&self.buffer);
            self.n_hand += 1;
        }
    }

    pub fn check(&self) {
        assert!(!self.strategy.has_data(), "C14:supply_queue_drains_with_one_pop_per_item");
        assert!(self.n_hand == self.n_push, "C14:every_item_delivered_exactly_once");
        let mut i = 0;
        while i < 6 {
            if i < self.n_push {
                assert!(same(&self.pushed[i], &self.handed[i]), "C14:items_delivered_in_push_order_unchanged");
            }
            i += 1;
        }
        kani::cover!(true, "reached_end");
    }
}

include!("/verif/kani/gen/swimos_runtime__backpressure.rs");
include!("/verif/kani/gen/playback/swimos_runtime__backpressure__verif_kani.rs");
