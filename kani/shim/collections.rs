//! Association-list stand-ins for `std::collections::{HashMap, HashSet}`, swapped in under
//! `cfg(kani)` only (std's hashbrown tables never finish under CBMC, even for two concrete
//! inserts). Same API subset as the modules that import it use; key *equality* is the key type's
//! real `Eq`, key *hashing* is not exercised (trusted: std's HashMap implements the same abstract
//! map). Iteration order is insertion order (with swap_remove), which differs from hashbrown's;
//! no checked property depends on iteration order.
#![allow(dead_code)]

use std::borrow::Borrow;
use std::marker::PhantomData;

#[derive(Debug, Clone)]
pub struct HashMap<K, V, S = ()> {
    items: Vec<(K, V)>,
    _s: PhantomData<S>,
}

impl<K, V, S> Default for HashMap<K, V, S> {
    fn default() -> Self {
        HashMap {
            items: Vec::new(),
            _s: PhantomData,
        }
    }
}

impl<K, V> HashMap<K, V, ()> {
    pub fn new() -> Self {
        Default::default()
    }
}

impl<K, V, S> HashMap<K, V, S> {
    pub fn with_hasher(_s: S) -> Self {
        Default::default()
    }

    pub fn len(&self) -> usize {
        self.items.len()
    }

    pub fn is_empty(&self) -> bool {
        self.items.is_empty()
    }

    pub fn clear(&mut self) {
        self.items.clear()
    }

    pub fn iter(&self) -> impl Iterator<Item = (&K, &V)> {
        self.items.iter().map(|(k, v)| (k, v))
    }

    pub fn iter_mut(&mut self) -> impl Iterator<Item = (&K, &mut V)> {
        self.items.iter_mut().map(|(k, v)| (&*k, v))
    }

    pub fn keys(&self) -> impl Iterator<Item = &K> {
        self.items.iter().map(|(k, _)| k)
    }

    pub fn values(&self) -> impl Iterator<Item = &V> {
        self.items.iter().map(|(_, v)| v)
    }

    pub fn values_mut(&mut self) -> impl Iterator<Item = &mut V> {
        self.items.iter_mut().map(|(_, v)| v)
    }

    pub fn drain(&mut self) -> std::vec::Drain<'_, (K, V)> {
        self.items.drain(..)
    }
}

impl<K: Eq, V, S> HashMap<K, V, S> {
    fn position<Q>(&self, k: &Q) -> Option<usize>
    where
        K: Borrow<Q>,
        Q: Eq + ?Sized,
    {
        let mut i = 0;
        while i < self.items.len() {
            if self.items[i].0.borrow() == k {
                return Some(i);
            }
            i += 1;
        }
        None
    }

    pub fn get<Q>(&self, k: &Q) -> Option<&V>
    where
        K: Borrow<Q>,
        Q: Eq + ?Sized,
    {
        match self.position(k) {
            Some(i) => Some(&self.items[i].1),
            None => None,
        }
    }

    pub fn get_mut<Q>(&mut self, k: &Q) -> Option<&mut V>
    where
        K: Borrow<Q>,
        Q: Eq + ?Sized,
    {
        match self.position(k) {
            Some(i) => Some(&mut self.items[i].1),
            None => None,
        }
    }

    pub fn contains_key<Q>(&self, k: &Q) -> bool
    where
        K: Borrow<Q>,
        Q: Eq + ?Sized,
    {
        self.position(k).is_some()
    }

    pub fn insert(&mut self, k: K, v: V) -> Option<V> {
        match self.position(&k) {
            Some(i) => Some(std::mem::replace(&mut self.items[i].1, v)),
            None => {
                self.items.push((k, v));
                None
            }
        }
    }

    pub fn remove<Q>(&mut self, k: &Q) -> Option<V>
    where
        K: Borrow<Q>,
        Q: Eq + ?Sized,
    {
        match self.position(k) {
            Some(i) => Some(self.items.swap_remove(i).1),
            None => None,
        }
    }

    pub fn remove_entry<Q>(&mut self, k: &Q) -> Option<(K, V)>
    where
        K: Borrow<Q>,
        Q: Eq + ?Sized,
    {
        match self.position(k) {
            Some(i) => Some(self.items.swap_remove(i)),
            None => None,
        }
    }

    pub fn retain<F: FnMut(&K, &mut V) -> bool>(&mut self, mut f: F) {
        self.items.retain_mut(|(k, v)| f(k, v))
    }

    pub fn entry(&mut self, k: K) -> Entry<'_, K, V, S> {
        match self.position(&k) {
            Some(i) => Entry::Occupied(OccupiedEntry { map: self, index: i }),
            None => Entry::Vacant(VacantEntry { map: self, key: k }),
        }
    }
}

impl<K, V, S> IntoIterator for HashMap<K, V, S> {
    type Item = (K, V);
    type IntoIter = std::vec::IntoIter<(K, V)>;
    fn into_iter(self) -> Self::IntoIter {
        self.items.into_iter()
    }
}

impl<'a, K, V, S> IntoIterator for &'a HashMap<K, V, S> {
    type Item = (&'a K, &'a V);
    type IntoIter = std::iter::Map<std::slice::Iter<'a, (K, V)>, fn(&'a (K, V)) -> (&'a K, &'a V)>;
    fn into_iter(self) -> Self::IntoIter {
        fn split<'b, K, V>(p: &'b (K, V)) -> (&'b K, &'b V) {
            (&p.0, &p.1)
        }
        self.items.iter().map(split::<K, V> as fn(&'a (K, V)) -> (&'a K, &'a V))
    }
}

impl<K: Eq, V, S> FromIterator<(K, V)> for HashMap<K, V, S> {
    fn from_iter<T: IntoIterator<Item = (K, V)>>(iter: T) -> Self {
        let mut m: HashMap<K, V, S> = Default::default();
        for (k, v) in iter {
            m.insert(k, v);
        }
        m
    }
}

pub enum Entry<'a, K, V, S = ()> {
    Occupied(OccupiedEntry<'a, K, V, S>),
    Vacant(VacantEntry<'a, K, V, S>),
}

pub struct OccupiedEntry<'a, K, V, S = ()> {
    map: &'a mut HashMap<K, V, S>,
    index: usize,
}

pub struct VacantEntry<'a, K, V, S = ()> {
    map: &'a mut HashMap<K, V, S>,
    key: K,
}

impl<'a, K: Eq, V, S> Entry<'a, K, V, S> {
    pub fn or_default(self) -> &'a mut V
    where
        V: Default,
    {
        self.or_insert_with(Default::default)
    }

    pub fn or_insert(self, v: V) -> &'a mut V {
        self.or_insert_with(|| v)
    }

    pub fn or_insert_with<F: FnOnce() -> V>(self, f: F) -> &'a mut V {
        match self {
            Entry::Occupied(o) => o.into_mut(),
            Entry::Vacant(v) => v.insert(f()),
        }
    }
}

impl<'a, K, V, S> OccupiedEntry<'a, K, V, S> {
    pub fn get(&self) -> &V {
        &self.map.items[self.index].1
    }
    pub fn get_mut(&mut self) -> &mut V {
        &mut self.map.items[self.index].1
    }
    pub fn into_mut(self) -> &'a mut V {
        &mut self.map.items[self.index].1
    }
    pub fn key(&self) -> &K {
        &self.map.items[self.index].0
    }
    pub fn insert(&mut self, v: V) -> V {
        std::mem::replace(&mut self.map.items[self.index].1, v)
    }
    pub fn remove(self) -> V {
        self.map.items.swap_remove(self.index).1
    }
    pub fn remove_entry(self) -> (K, V) {
        self.map.items.swap_remove(self.index)
    }
}

impl<'a, K, V, S> VacantEntry<'a, K, V, S> {
    pub fn insert(self, v: V) -> &'a mut V {
        self.map.items.push((self.key, v));
        let n = self.map.items.len();
        &mut self.map.items[n - 1].1
    }
    pub fn key(&self) -> &K {
        &self.key
    }
}

#[derive(Debug, Clone)]
pub struct HashSet<T, S = ()> {
    items: Vec<T>,
    _s: PhantomData<S>,
}

impl<T, S> Default for HashSet<T, S> {
    fn default() -> Self {
        HashSet {
            items: Vec::new(),
            _s: PhantomData,
        }
    }
}

impl<T> HashSet<T, ()> {
    pub fn new() -> Self {
        Default::default()
    }
}

impl<T, S> HashSet<T, S> {
    pub fn len(&self) -> usize {
        self.items.len()
    }
    pub fn is_empty(&self) -> bool {
        self.items.is_empty()
    }
    pub fn clear(&mut self) {
        self.items.clear()
    }
    pub fn iter(&self) -> std::slice::Iter<'_, T> {
        self.items.iter()
    }
    pub fn drain(&mut self) -> std::vec::Drain<'_, T> {
        self.items.drain(..)
    }
}

impl<T: Eq, S> HashSet<T, S> {
    fn position<Q>(&self, k: &Q) -> Option<usize>
    where
        T: Borrow<Q>,
        Q: Eq + ?Sized,
    {
        let mut i = 0;
        while i < self.items.len() {
            if self.items[i].borrow() == k {
                return Some(i);
            }
            i += 1;
        }
        None
    }

    pub fn contains<Q>(&self, k: &Q) -> bool
    where
        T: Borrow<Q>,
        Q: Eq + ?Sized,
    {
        self.position(k).is_some()
    }

    pub fn insert(&mut self, t: T) -> bool {
        if self.position(&t).is_some() {
            false
        } else {
            self.items.push(t);
            true
        }
    }

    pub fn remove<Q>(&mut self, k: &Q) -> bool
    where
        T: Borrow<Q>,
        Q: Eq + ?Sized,
    {
        match self.position(k) {
            Some(i) => {
                self.items.swap_remove(i);
                true
            }
            None => false,
        }
    }

    pub fn retain<F: FnMut(&T) -> bool>(&mut self, f: F) {
        self.items.retain(f)
    }
}

impl<T, S> IntoIterator for HashSet<T, S> {
    type Item = T;
    type IntoIter = std::vec::IntoIter<T>;
    fn into_iter(self) -> Self::IntoIter {
        self.items.into_iter()
    }
}

impl<'a, T, S> IntoIterator for &'a HashSet<T, S> {
    type Item = &'a T;
    type IntoIter = std::slice::Iter<'a, T>;
    fn into_iter(self) -> Self::IntoIter {
        self.items.iter()
    }
}

impl<T: Eq, S> FromIterator<T> for HashSet<T, S> {
    fn from_iter<I: IntoIterator<Item = T>>(iter: I) -> Self {
        let mut s: HashSet<T, S> = Default::default();
        for t in iter {
            s.insert(t);
        }
        s
    }
}
