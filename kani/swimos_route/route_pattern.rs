//! C18 — Kani harness helpers for `swimos_route::route_pattern`, mounted as a child module of the
//! real module (so `RoutePattern`'s private fields can be written and read). The harness
//! functions themselves are generated per shape by /verif/lib/props/c18.py.
//!
//! Why patterns are built field by field instead of through `RoutePattern::parse_str`: under CBMC
//! `parse` costs 53 s for the concrete text "/ab", 569 s for two symbolic bytes and runs out of
//! memory for three (the `Vec<Segment>` written through `&mut` in `ParseState::transition` is not
//! constant-propagated, so every later loop is explored up to the unwind bound). Matching and the
//! ambiguity check on a directly built pattern cost seconds. The two halves are tied together
//! (a) by the `c18_parse_*` harnesses, which run the real `parse_str` on the short shapes and
//! compare every private field with the skeleton builder used here, and (b) natively: when a
//! harness is replayed outside the solver (`under_solver() == false`) every skeleton is compared
//! with the result of the real `parse_str`, and every URI with the real `RouteUri::from_str`.
#![allow(dead_code, unused_imports, unused_variables, unused_parens)]

use super::*;
use crate::route_uri::verif_kani::path_only_uri;

/// `HashMap::new()` (returned, empty, by `unapply_parts` for parameter-free patterns) needs
/// `RandomState::new()`, which reads OS randomness through a syscall Kani cannot execute. The
/// hasher keys are irrelevant here: nothing is ever inserted into or looked up in the map.
pub fn stub_random_state() -> std::hash::RandomState {
    unsafe { std::mem::transmute::<[u64; 2], std::hash::RandomState>([0, 0]) }
}

/// The text of `UnapplyError` (two `to_string()` calls through `core::fmt`) is not part of the
/// property; formatting it made every non-matching path 5–10x more expensive.
pub fn stub_fmt_write(
    _o: &mut dyn std::fmt::Write,
    _a: std::fmt::Arguments<'_>,
) -> std::fmt::Result {
    Ok(())
}

/// `true` under Kani (where `core::fmt::write` is the stub above), `false` in a native replay.
fn under_solver() -> bool {
    let mut s = String::new();
    let _ = std::fmt::write(&mut s, format_args!("x"));
    s.is_empty()
}

fn as_str(b: &[u8]) -> &str {
    unsafe { std::str::from_utf8_unchecked(b) }
}

/// Any ASCII byte that may continue a segment of a pattern.
fn lit() -> u8 {
    let b: u8 = kani::any();
    kani::assume(b < 0x80 && b != b'/');
    b
}

/// Any ASCII byte that may start a *literal* segment of a pattern.
fn lit0() -> u8 {
    let b: u8 = kani::any();
    kani::assume(b < 0x80 && b != b'/' && b != b':');
    b
}

/// Any byte of a scheme name (`route_pattern::ParseState`: a first segment-like run of
/// alphabetic characters followed by ':').
fn sch() -> u8 {
    let b: u8 = kani::any();
    kani::assume(b.is_ascii_alphabetic());
    b
}

/// Any ASCII byte that may appear in a parameter name.
fn name() -> u8 {
    let b: u8 = kani::any();
    kani::assume(b < 0x80 && b != b'/' && b != b':');
    b
}

/// Transcription of `route_uri::parser::is_path_char` (private there): the bytes a URI path
/// segment may contain unescaped. Used only to *assume* that the symbolic URI is well formed.
fn pc(c: u8) -> bool {
    c.is_ascii_alphanumeric()
        || matches!(
            c,
            b'$' | b'-'
                | b'_'
                | b'.'
                | b'+'
                | b'!'
                | b'*'
                | b'\''
                | b'('
                | b')'
                | b','
                | b':'
                | b'@'
                | b'&'
                | b'='
                | b';'
        )
}

fn hx(c: u8) -> bool {
    c.is_ascii_hexdigit()
}

fn same_fields(a: &RoutePattern, b: &RoutePattern) -> bool {
    if a.pattern != b.pattern
        || a.scheme != b.scheme
        || a.absolute != b.absolute
        || a.segments.len() != b.segments.len()
    {
        return false;
    }
    let mut i = 0;
    while i < a.segments.len() {
        let (x, y) = (&a.segments[i], &b.segments[i]);
        if x.start != y.start || x.end != y.end || x.parameter != y.parameter {
            return false;
        }
        i += 1;
    }
    true
}

/// The `RoutePattern` that `parse_str(text)` produces for a scheme-less text whose segments lie at
/// the given `(start, end, is_parameter)` offsets.
fn skeleton(text: &str, absolute: bool, segs: &[(usize, usize, bool)]) -> RoutePattern {
    skeleton_s(text, None, absolute, segs)
}

/// As `skeleton`, for a text that starts with a scheme of `scheme` bytes followed by ':'.
fn skeleton_s(
    text: &str,
    scheme: Option<usize>,
    absolute: bool,
    segs: &[(usize, usize, bool)],
) -> RoutePattern {
    let mut segments = Vec::with_capacity(segs.len());
    let mut i = 0;
    while i < segs.len() {
        segments.push(Segment {
            start: segs[i].0,
            end: segs[i].1,
            parameter: segs[i].2,
        });
        i += 1;
    }
    let p = RoutePattern {
        pattern: text.to_owned(),
        scheme,
        absolute,
        segments,
    };
    if !under_solver() {
        // native replay: the skeleton must be what the real parser returns
        let q = RoutePattern::parse_str(text).expect("C18:skeleton_text_parses");
        assert!(same_fields(&p, &q), "C18:skeleton_is_parse");
    }
    p
}

fn mk_uri(text: &str) -> RouteUri {
    let u = path_only_uri(text);
    if !under_solver() {
        let v: RouteUri = text.parse().expect("C18:uri_text_parses");
        assert!(u == v && u.path() == v.path() && u.scheme() == v.scheme(), "C18:uri_is_parse");
    }
    u
}

fn pat_matches(p: &RoutePattern, uri: &RouteUri) -> bool {
    let r = p.unapply_route_uri(uri);
    let ok = r.is_ok();
    std::mem::forget(r);
    ok
}

include!("/verif/kani/gen/swimos_route__route_pattern.rs");
include!("/verif/kani/gen/playback/swimos_route__route_pattern__verif_kani.rs");
