//! C18 — helper mounted as a child of `swimos_route::route_uri` (so that the private constructor
//! `RouteUri::new` is reachable): builds a `RouteUri` that consists of a path only.
#![allow(dead_code)]

use super::RouteUri;

/// The `RouteUri` that `RouteUri::from_str` produces for a text that is a path only (no scheme,
/// query or fragment): `path = (0, len)`.
pub(crate) fn path_only_uri(text: &str) -> RouteUri {
    RouteUri::new(text.to_owned(), None, (0, text.len()), None, None)
}
