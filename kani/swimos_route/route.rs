//! C18 probe
#![allow(dead_code, unused_imports, unused_variables)]

use super::RouteUri;
use crate::route_pattern::RoutePattern;

pub fn stub_random_state() -> std::hash::RandomState {
    unsafe { std::mem::transmute::<[u64; 2], std::hash::RandomState>([0, 0]) }
}

fn lit() -> u8 {
    let b: u8 = kani::any();
    kani::assume(b < 0x80 && b != b'/');
    b
}

fn lit0() -> u8 {
    let b: u8 = kani::any();
    kani::assume(b < 0x80 && b != b'/' && b != b':');
    b
}

fn as_str(b: &[u8]) -> &str {
    unsafe { std::str::from_utf8_unchecked(b) }
}

fn mk_uri(b: &[u8]) -> RouteUri {
    RouteUri::new(as_str(b).to_owned(), None, (0, b.len()), None, None)
}

#[kani::proof]
#[kani::unwind(6)]
#[kani::stub(std::hash::RandomState::new, stub_random_state)]
fn probe_parse_lit() {
    let p = [b'/', lit0(), lit()];
    let r = RoutePattern::parse_str(as_str(&p));
    kani::assert(r.is_ok(), "C18:probe_ok");
    kani::cover!(r.is_ok(), "ok");
    std::mem::forget(r);
}

#[kani::proof]
#[kani::unwind(6)]
#[kani::stub(std::hash::RandomState::new, stub_random_state)]
fn probe_match_lit() {
    let p = [b'/', lit0(), lit()];
    let r = RoutePattern::parse_str(as_str(&p));
    kani::assert(r.is_ok(), "C18:probe_ok");
    let pat = r.unwrap();
    let u = [b'/', lit0(), lit()];
    let uri = mk_uri(&u);
    let m = pat.unapply_route_uri(&uri);
    kani::cover!(m.is_ok(), "match");
    kani::cover!(m.is_err(), "nomatch");
    std::mem::forget(m);
    std::mem::forget(pat);
    std::mem::forget(uri);
}

#[kani::proof]
#[kani::unwind(6)]
#[kani::stub(std::hash::RandomState::new, stub_random_state)]
fn probe_parse_any4() {
    let a: [u8; 4] = kani::any();
    kani::assume(a[0] < 0x80 && a[1] < 0x80 && a[2] < 0x80 && a[3] < 0x80);
    let r = RoutePattern::parse_str(as_str(&a));
    kani::cover!(r.is_ok(), "ok");
    kani::cover!(r.is_err(), "err");
    std::mem::forget(r);
}

#[kani::proof]
#[kani::unwind(6)]
#[kani::stub(std::hash::RandomState::new, stub_random_state)]
fn probeb_parse_conc() {
    let r = RoutePattern::parse_str("/ab");
    kani::cover!(r.is_ok(), "ok");
    std::mem::forget(r);
}

#[kani::proof]
#[kani::unwind(6)]
#[kani::stub(std::hash::RandomState::new, stub_random_state)]
fn probeb_parse_chars_conc() {
    let r = RoutePattern::parse(['/', 'a', 'b']);
    kani::cover!(r.is_ok(), "ok");
    std::mem::forget(r);
}

#[kani::proof]
#[kani::unwind(6)]
#[kani::stub(std::hash::RandomState::new, stub_random_state)]
fn probeb_parse_chars_1sym() {
    let b: u8 = kani::any();
    kani::assume(b == b'a' || b == b'%');
    let r = RoutePattern::parse(['/', b as char, 'b']);
    kani::cover!(r.is_ok(), "ok");
    std::mem::forget(r);
}
