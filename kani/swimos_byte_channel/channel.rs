//! C12 — Kani harnesses for `swimos_byte_channel::channel`, mounted as a child of the real module
//! (private `Conduit` fields are read to compare the real state with the reference model).
//!
//! Family (I): a *concrete* prefix drives a real channel into one abstract state class
//! (capacity, buffered count, who is parked on the single waker slot, closed-by, coop budget);
//! then ONE operation whose kind and sizes are symbolic runs against the reference transition
//! function and the complete real state is compared with the model afterwards.
#![allow(dead_code, unused_imports, unused_variables, static_mut_refs)]

use super::*;
use std::task::{RawWaker, RawWakerVTable};
use std::mem::ManuallyDrop;
use std::time::Instant;

// ---- environment ---------------------------------------------------------------------------

/// Contention is impossible in a sequential harness; reaching a slow path is itself reported.
pub fn stub_lock_slow(_m: &parking_lot::RawMutex, _timeout: Option<Instant>) -> bool {
    panic!("C12:mutex slow path reached in a sequential harness");
}
pub fn stub_unlock_slow(_m: &parking_lot::RawMutex, _force_fair: bool) {
    panic!("C12:mutex slow path reached in a sequential harness");
}

/// Counting wakers built on a hand-written vtable of trivial functions (a `Wake`-trait `Arc`
/// waker makes CBMC expand function pointers over the whole binary). Waker `id` carries
/// `id + 1` as its data pointer: 1 = reader side, 2 = writer side.
static mut WAKES: [usize; 4] = [0, 0, 0, 0];

unsafe fn vt_clone(p: *const ()) -> RawWaker {
    RawWaker::new(p, &VTABLE)
}
unsafe fn vt_wake(p: *const ()) {
    WAKES[p as usize - 1] += 1;
}
unsafe fn vt_drop(_p: *const ()) {}
static VTABLE: RawWakerVTable = RawWakerVTable::new(vt_clone, vt_wake, vt_wake, vt_drop);

const READER: u8 = 1;
const WRITER: u8 = 2;
/// Wakers already parked when a class is entered carry different identities from the wakers the
/// checked operation polls with, so that an operation which must *replace* the stored waker
/// (a parked side polled again, possibly from another task) is distinguishable from one that
/// leaves a stale waker behind.
const READER_OLD: u8 = 3;
const WRITER_OLD: u8 = 4;

fn is_reader(id: u8) -> bool {
    id == READER || id == READER_OLD
}
fn is_writer(id: u8) -> bool {
    id == WRITER || id == WRITER_OLD
}

fn mk_waker(side: u8) -> Waker {
    unsafe { Waker::from_raw(RawWaker::new(side as usize as *const (), &VTABLE)) }
}

fn wakes(side: u8) -> usize {
    unsafe { WAKES[side as usize - 1] }
}

fn reset_wakes() {
    unsafe {
        WAKES = [0, 0, 0, 0];
    }
}

// ---- reference model -----------------------------------------------------------------------

const MAXC: usize = 3;

#[derive(Clone, Copy)]
struct Model {
    cap: usize,
    buf: [u8; MAXC],
    len: usize,
    closed: bool,
    parked: u8, // 0 none, READER, WRITER
    budget: Option<usize>,
}

const CLOSED_NO: u8 = 0;
const CLOSED_READER_DROP: u8 = 1;
const CLOSED_WRITER_DROP: u8 = 2;
const CLOSED_SHUTDOWN: u8 = 3;

const OP_READ: u8 = 0;
const OP_WRITE: u8 = 1;
const OP_FLUSH: u8 = 2;
const OP_SHUTDOWN: u8 = 3;

fn budget_get() -> Option<usize> {
    crate::coop::verif_kani::get()
}
fn budget_set(b: Option<usize>) {
    crate::coop::verif_kani::set(b)
}

/// Compare the complete real channel state with the model.
fn check_state(inner: &Arc<Mutex<Conduit>>, m: &Model) {
    let g = inner.lock();
    assert!(g.data.len() <= g.capacity, "C12:capacity_respected");
    assert!(g.data.len() == m.len, "C12:buffered_count_matches_reference");
    let mut i = 0;
    while i < MAXC {
        if i < m.len {
            assert!(g.data[i] == m.buf[i], "C12:buffered_bytes_match_reference");
        }
        i += 1;
    }
    assert!(g.closed == m.closed, "C12:closed_flag_matches_reference");
    let slot = match &g.waker {
        None => 0usize,
        Some(w) => w.data() as usize,
    };
    assert!(slot == m.parked as usize, "C12:waker_slot_matches_reference");
    drop(g);
    assert!(budget_get() == m.budget, "C12:coop_budget_matches_reference");
}

/// Reference for `coop::consume_budget`: `true` = proceed, `false` = forced yield.
fn model_consume(m: &mut Model) -> bool {
    match m.budget {
        Some(b) => {
            let b = b.saturating_sub(1);
            if b == 0 {
                m.budget = None;
                false
            } else {
                m.budget = Some(b);
                true
            }
        }
        None => {
            m.budget = Some(64);
            true
        }
    }
}

fn model_track_pending(m: &mut Model) {
    if let Some(b) = m.budget {
        m.budget = Some(b.saturating_add(1));
    }
}

fn model_wake(m: &mut Model) -> u8 {
    let w = m.parked;
    m.parked = 0;
    w
}

/// Drive a fresh channel into the abstract state class. All parameters are concrete.
fn prepare(
    cap: usize,
    len: usize,
    parked: u8,
    closed: u8,
    budget: Option<usize>,
) -> (
    ManuallyDrop<Option<ByteWriter>>,
    ManuallyDrop<Option<ByteReader>>,
    ManuallyDrop<Arc<Mutex<Conduit>>>,
    Model,
) {
    // ManuallyDrop: the drop glue of the last `Arc<Mutex<Conduit>>` (BytesMut + Waker vtables)
    // at the end of a harness costs CBMC 200 s / 16 GB and is not what is being checked;
    // endpoint drops that ARE checked are explicit `drop(x.take())` calls.
    reset_wakes();
    budget_set(Some(1000));
    let (tx, rx) = byte_channel(NonZeroUsize::new(cap).unwrap());
    let inner = ManuallyDrop::new(tx.inner.clone());
    let mut tx = ManuallyDrop::new(Some(tx));
    let mut rx = ManuallyDrop::new(Some(rx));
    let rw = mk_waker(READER);
    let ww = mk_waker(WRITER);
    let mut m = Model {
        cap,
        buf: [0; MAXC],
        len: 0,
        closed: false,
        parked: 0,
        budget: None,
    };
    // buffered bytes: symbolic content, concrete count
    let content: [u8; MAXC] = kani::any();
    if len > 0 {
        let mut cx = Context::from_waker(&ww);
        let r = Pin::new(tx.as_mut().unwrap()).poll_write(&mut cx, &content[..len]);
        assert!(matches!(r, Poll::Ready(Ok(n)) if n == len), "C12:prefix_write");
        let mut i = 0;
        while i < len {
            m.buf[i] = content[i];
            i += 1;
        }
        m.len = len;
    }
    // The remaining components of the class are set on the (private) representation directly:
    // driving them with a second writer-side poll or an endpoint drop after the prefix write
    // makes CBMC run out of memory (>6 GB, measured for every such class). That the real
    // operations produce exactly these representations is what the steps from the len == 0
    // classes check (park on empty / on full, close by shutdown / drop).
    {
        let mut g = inner.lock();
        if parked == READER {
            g.waker = Some(mk_waker(READER_OLD));
            m.parked = READER_OLD;
        } else if parked == WRITER {
            g.waker = Some(mk_waker(WRITER_OLD));
            m.parked = WRITER_OLD;
        }
        if closed != CLOSED_NO {
            g.closed = true;
            m.closed = true;
        }
    }
    match closed {
        CLOSED_READER_DROP => {
            std::mem::forget(rx.take());
        }
        CLOSED_WRITER_DROP => {
            std::mem::forget(tx.take());
        }
        _ => {}
    }
    budget_set(budget);
    m.budget = budget;
    reset_wakes();
    check_state(&inner, &m);
    (tx, rx, inner, m)
}

/// One reader/writer operation with symbolic kind and sizes from the prepared class.
/// Symbolic coop budget: `None` or `Some(b)` for any `b >= 1` (0 is never stored by the code).
fn any_budget() -> Option<usize> {
    if kani::any() {
        None
    } else {
        let b: usize = kani::any();
        kani::assume(b >= 1);
        Some(b)
    }
}

/// One operation from the prepared class. Concrete: class, operation kind and request size
/// (`BytesMut`/`ReadBuf` with symbolic lengths do not finish). Symbolic: buffered bytes, written
/// bytes and the coop budget (hence whether the call is a forced yield).
fn one_op(cap: usize, len: usize, parked: u8, closed: u8, op: u8, size: usize) {
    let budget = any_budget();
    let (mut tx, mut rx, inner, mut m) = prepare(cap, len, parked, closed, budget);
    let rw = mk_waker(READER);
    let ww = mk_waker(WRITER);
    if (rx.is_none() && op == OP_READ) || (tx.is_none() && op != OP_READ) {
        return;
    }
    let before = m;
    let caller = if op == OP_READ { READER } else { WRITER };
    let other = if op == OP_READ { WRITER } else { READER };
    let proceed = model_consume(&mut m);
    if op == OP_READ {
        let r: usize = size;
        let mut store = [0u8; 2];
        let mut rb = ReadBuf::new(&mut store[..r]);
        let mut cx = Context::from_waker(&rw);
        let res = Pin::new(rx.as_mut().unwrap()).poll_read(&mut cx, &mut rb);
        let got = rb.filled().len();
        if !proceed {
            assert!(res.is_pending() && got == 0, "C12:coop_yield_returns_pending");
        } else if before.len > 0 {
            let count = if before.len < r { before.len } else { r };
            assert!(matches!(res, Poll::Ready(Ok(()))), "C12:read_ready_when_data_buffered");
            assert!(got == count, "C12:read_count");
            let mut i = 0;
            while i < 2 {
                if i < count {
                    assert!(rb.filled()[i] == before.buf[i], "C12:read_is_next_written_bytes");
                }
                i += 1;
            }
            if count > 0 {
                // shift the model buffer
                let mut j = 0;
                while j < MAXC {
                    m.buf[j] = if j + count < MAXC { before.buf[j + count] } else { 0 };
                    j += 1;
                }
                m.len = before.len - count;
                model_wake(&mut m);
            }
        } else if before.closed {
            assert!(matches!(res, Poll::Ready(Ok(()))) && got == 0, "C12:eof_after_close_when_drained");
        } else {
            assert!(res.is_pending() && got == 0, "C12:read_pending_when_empty_and_open");
            m.parked = READER;
            model_track_pending(&mut m);
        }
    } else if op == OP_WRITE {
        let n: usize = size;
        let data: [u8; 2] = kani::any();
        let mut cx = Context::from_waker(&ww);
        let res = Pin::new(tx.as_mut().unwrap()).poll_write(&mut cx, &data[..n]);
        if !proceed {
            assert!(res.is_pending(), "C12:coop_yield_returns_pending");
        } else if before.closed {
            assert!(matches!(&res, Poll::Ready(Err(e)) if e.kind() == ErrorKind::BrokenPipe),
                    "C12:write_after_close_fails");
        } else if n == 0 {
            assert!(matches!(res, Poll::Ready(Ok(0))), "C12:empty_write_is_noop");
        } else {
            let avail = before.cap - before.len;
            if avail == 0 {
                assert!(res.is_pending(), "C12:write_pending_when_full");
                m.parked = WRITER;
                model_track_pending(&mut m);
            } else {
                let k = if n < avail { n } else { avail };
                assert!(matches!(res, Poll::Ready(Ok(w)) if w == k), "C12:write_accepts_min_of_request_and_space");
                let mut i = 0;
                while i < 2 {
                    if i < k {
                        m.buf[before.len + i] = data[i];
                    }
                    i += 1;
                }
                m.len = before.len + k;
                model_wake(&mut m);
            }
        }
        std::mem::forget(res);
    } else if op == OP_FLUSH {
        let mut cx = Context::from_waker(&ww);
        let res = Pin::new(tx.as_mut().unwrap()).poll_flush(&mut cx);
        if !proceed {
            assert!(res.is_pending(), "C12:coop_yield_returns_pending");
        } else {
            assert!(matches!(res, Poll::Ready(Ok(()))), "C12:flush_ready");
        }
    } else {
        let mut cx = Context::from_waker(&ww);
        let res = Pin::new(tx.as_mut().unwrap()).poll_shutdown(&mut cx);
        if !proceed {
            assert!(res.is_pending(), "C12:coop_yield_returns_pending");
        } else {
            assert!(matches!(res, Poll::Ready(Ok(()))), "C12:shutdown_ready");
            m.closed = true;
            model_wake(&mut m);
        }
    }
    // wake-up laws
    if !proceed {
        // forced yield: self-wake, nothing else changes
        assert!(wakes(caller) == 1, "C12:coop_yield_self_wakes");
        assert!(wakes(other) == 0 && wakes(READER_OLD) == 0 && wakes(WRITER_OLD) == 0,
                "C12:no_spurious_wake_of_other_side");
        assert!(m.len == before.len && m.parked == before.parked && m.closed == before.closed,
                "C12:coop_yield_preserves_state");
    } else {
        let progress_for_reader = m.len > before.len || (m.closed && !before.closed);
        let progress_for_writer = m.len < before.len || (m.closed && !before.closed);
        if is_reader(before.parked) && caller == WRITER && progress_for_reader {
            assert!(wakes(before.parked) == 1, "C12:waiting_reader_woken_on_progress_or_close");
        }
        if is_writer(before.parked) && caller == READER && progress_for_writer {
            assert!(wakes(before.parked) == 1, "C12:waiting_writer_woken_on_progress_or_close");
        }
    }
    check_state(&inner, &m);
    kani::cover!(!proceed, "forced coop yield");
    kani::cover!(proceed, "operation ran");
}

/// Dropping an endpoint from the prepared class: closes, wakes whoever is parked, keeps data.
fn drop_op(cap: usize, len: usize, parked: u8, drop_reader: bool) {
    let budget = any_budget();
    let (mut tx, mut rx, inner, mut m) = prepare(cap, len, parked, CLOSED_NO, budget);
    let before = m;
    if drop_reader {
        drop(rx.take());
    } else {
        drop(tx.take());
    }
    m.closed = true;
    m.parked = 0;
    if is_writer(before.parked) && drop_reader {
        assert!(wakes(before.parked) == 1, "C12:waiting_writer_woken_on_progress_or_close");
    }
    if is_reader(before.parked) && !drop_reader {
        assert!(wakes(before.parked) == 1, "C12:waiting_reader_woken_on_progress_or_close");
    }
    check_state(&inner, &m);
    kani::cover!(true, "dropped");
}

include!("/verif/kani/gen/swimos_byte_channel__channel.rs");
include!("/verif/kani/gen/playback/swimos_byte_channel__channel__verif_kani.rs");
