//! C12 — access to the private coop task budget for the byte-channel harnesses.
use super::*;

pub(crate) fn get() -> Option<usize> {
    TASK_BUDGET.with(|b| b.get())
}

pub(crate) fn set(x: Option<usize>) {
    TASK_BUDGET.with(|b| b.set(x))
}
