#!/usr/bin/env python3
"""Regenerates /verif/MANIFEST.json from the table below (run by hand when a check is added)."""
import json, subprocess

TECH = "bounded symbolic execution + SAT (Kani 0.68 / CBMC 6.11) over the compiled repository code"

CLAIMED = {
 "C19": dict(
   text="Bounded symbolic model checking (Kani/CBMC, SAT) of the real Value::cmp/eq/hash: one proof obligation per cell of the kind x kind (x kind) table, every payload bit symbolic at full width, so each law is decided for all 2^64 x 2^64 (x 2^64) payloads of a cell rather than for sampled values.",
   note="Bounds: scalar kinds at full width; Text/Data <=1 byte (quick) / <=2 bytes (thorough), ASCII; BigInt/BigUint one 64-bit digit (thorough). Outside: Record values, Float64 x BigUint, longer texts. Hash equality judged on the byte stream fed to the Hasher. Trusted: Kani's MIR translation, CBMC incl. its float model. Recorded findings C19-F1/F2 (known_findings.json) are reported as KNOWN-FINDING; the same cells are verified with the finding's region assumed away.",
   ref="DESIGN.md section 4, C19"),
 "C17": dict(
   text="Bounded symbolic model checking of the real lock-free vote bit set: (S) every sequence of k operations with symbolic (party, op in vote/rescind/drop/poll) per step for 2 and 3 parties, compared with a reference bit set after every step; (I) one symbolic operation from every state satisfying the representation invariant, for 2..8 parties (thorough).",
   note="Bounds: 6 steps quick / 8-10 thorough. Assumes linearizability of vote (one fetch_or) and rescind (one successful CAS), so concurrent executions are sequential orders; memory-ordering effects and real threads are outside. futures::task::AtomicWaker::{register,wake} are stubbed by recorders (trusted library). Use sites in agent/task and downlink are not encoded.",
   ref="DESIGN.md section 4, C17"),
}

CLAIMED["C12"] = dict(
   text="Bounded symbolic model checking of the real byte channel, one transition at a time: the real channel is driven into each abstract state class (capacity, buffered count, who is parked on the single waker slot, closed-by) and ONE real operation (poll_read / poll_write / poll_flush / poll_shutdown / endpoint drop, concrete request size) is executed with symbolic buffered bytes, written bytes and coop budget; the complete real state (buffer bytes, closed flag, waker-slot owner, budget), the returned bytes/result and the wake counters are compared with a reference transition function. Covering every class x operation checks the transition relation for the stated sizes, hence histories of any length through the abstraction.",
   note="Bounds: capacity 1..2 quick / 1..3 thorough, requests 0..2 bytes. Outside (CBMC runs out of memory, measured): non-empty writes and endpoint drops while the buffer is non-empty - so 'write on a full buffer parks the writer' is not executed; parked-writer and closed classes with buffered data are constructed on the private representation (waker slot / closed flag set directly) and only their onward transitions are checked. Assumes every operation runs entirely under the parking_lot mutex (sequential orders of operations = concurrent executions); parking_lot slow paths stubbed to panic; wakers are hand-written counting RawWakerVTables. Kernel-level only: no tokio scheduler, no real threads.",
   ref="DESIGN.md section 4, C12")
CLAIMED["C02"] = dict(
   text="Bounded symbolic model checking of the real agent-side map-lane storage (MapStoreInner + WriteQueues/EventQueue coalescing + to_operation): every sequence of update(k)/remove(k)/clear/pop over 3 keys up to the stated length (operation kinds and key aliasing enumerated completely, values symbolic, epoch counter started at 0 and just below usize::MAX so it wraps) is executed on the real code, the queue is drained and the replica of an observer that applies what was popped must equal the lane's map; popped values must have been held by their key; the private epoch index must stay consistent.",
   note="Bounds: 3 keys, values 0..8, shapes complete to length 3 (+ seeded third of length 4) quick / complete to 4 + 600 seeded of length 5 thorough. Outside (measured intractable): symbolic keys/epoch beyond tiny shapes, the sync-queue path (C03), the runtime MapOperationQueue (BytesMut), take/drop ordering, Recon-equal-but-different key texts, composition of the two coalescing layers across the byte channel and all task interleavings. std HashMap replaced by an association-list shim under cfg(kani); a flat 3-slot MapOps backing stands in for the std maps.",
   ref="DESIGN.md section 4, C02")

NA = {
 "C03": "the sync-queue path of WriteQueues does not finish under CBMC even fully concrete (update+sync+3 pops: time-out at 400 s; same shape without sync: 8 s); the runtime half needs Uplinks (byte channel + promise + BytesMut buffers); no smaller kernel carries the property (DESIGN.md section 4/5)",
 "C04": "Uplinks/Links/RemoteTracker/WriteTaskState cannot be encoded within reach: constructing Uplinks needs byte_channel + trigger::promise (Kani ICE in the probe), the nested HashMap registries ran out of memory at 40 GB even with concrete shape, and the BytesMut backpressure buffers hit the double-extend pathology measured for C12",
 "C05": "the property is the order of persist_response before handle_event inside an async select loop, every crash point and restart through tokio tasks; Kani cannot execute the runtime and the only kernel (persist_response) says nothing about order or crashes",
 "C06": "quantifies over handler programs (trees of boxed HandlerActions) run by the agent's async loop; no data-symbolic kernel carries it, program structure can only be enumerated",
 "C07": "consumer sessions live in 1300 lines of async select loops over tokio mpsc/timers/FramedRead; the command-relief half is Value/MapBackpressure over BytesMut (clear+put on a used buffer: the pathology measured for C12)",
 "C08": "on_read/on_event are private async fns over lifecycle futures and tracing, hosted downlinks sit behind the agent HandlerAction machinery; far simpler heap code (C02, C12) is already at CBMC's limit, so no honest bound was in reach",
 "C09": "Recon parser/printers (nom + core::fmt, ~4 kLoC) are beyond CBMC: even tokens::unescape on a 6-byte string times out at 400 s",
 "C11": "the only candidate kernel (escape_if_needed / tokens::unescape) times out at 400 s for 1-6 byte strings (char iterators, scan/flatten/collect); routing through RemoteTask/MultiReader needs the tokio runtime",
 "C14": "SupplyBackpressure / CommandOutput are append-only BytesMut queues: every interesting scenario is two or more appends to one buffer, the exact operation measured not to finish under CBMC (C12)",
 "C15": "both sides of the law (compare_recon_values/recon_hash vs parse_recognize) are the incremental Recon parser (C09 reason)",
 "C16": "derive-generated recognisers + Recon parser + MessagePack reader over heap Value trees, quantified over derived types (programs); C06 + C09 reasons",
}

def main():
    props = [json.loads(l) for l in open('/verif/properties.jsonl')]
    na_default = "not yet built in this session (see DESIGN.md section 4)"
    hooks = subprocess.run(["git", "-C", "/repo", "log", "--format=%h %s", "--grep=^verif hook"],
                           capture_output=True, text=True).stdout.strip().splitlines()
    checks = []
    for pid, c in sorted(CLAIMED.items()):
        checks.append({
            "property_id": pid, "quick_cmd": f"./check {pid} --tier quick",
            "thorough_cmd": f"./check {pid} --tier thorough",
            "evidence_file": f"/verif/evidence/{pid}.json",
            "replay_cmd_template": f"./check {pid} --replay {{path}}", "engine": "kani-cbmc",
            "level_claimed": {"category": "model_checking", "text": c["text"], "design_ref": c["ref"]},
            "level_note": c["note"], "technique": TECH})
    m = {
        "version": 1, "setup_cmd": "./setup.sh",
        "hooks": {"guard": "cfg(kani)",
                  "enable": "set automatically by the Kani compiler (cargo kani / cargo kani playback); never set in ordinary builds",
                  "baseline_off_cmd": "cd /repo && cargo test --workspace --no-fail-fast --offline",
                  "source_commits": [h.split()[0] for h in hooks], "add_only": True},
        "engines": [{"name": "kani-cbmc", "path": "/verif/check", "serves_properties": sorted(CLAIMED),
                     "kind_free_text": "Kani 0.68 / CBMC 6.11 bounded symbolic execution of the compiled repository code; python driver in lib/"}],
        "checks": checks,
        "not_applicable": [{"property_id": p["id"], "reason": NA.get(p["id"], na_default)}
                           for p in props if p["id"] not in CLAIMED],
        "notes": "Every check decides its property by CBMC verdicts over #[kani::proof] harnesses compiled from /repo's working tree on each run; exit 2 = inconclusive (timeout/out of memory/trivial harness), never reported as held.",
    }
    json.dump(m, open('/verif/MANIFEST.json', 'w'), indent=1)

main()
