#!/usr/bin/env python3
"""Regenerates /verif/MANIFEST.json from the table below (run by hand when a check is added)."""
import json, subprocess

TECH = "bounded symbolic execution + SAT (Kani 0.68 / CBMC 6.11) over the compiled repository code"

CLAIMED = {
 "C19": dict(
   text="Bounded symbolic model checking (Kani/CBMC, SAT) of the real Value::cmp/eq/hash: one proof obligation per cell of the kind x kind (x kind) table, every payload bit symbolic at full width, so each law is decided for all 2^64 x 2^64 (x 2^64) payloads of a cell rather than for sampled values.",
   note="Bounds: scalar kinds at full width; Text/Data <=1 byte (quick) / <=2 bytes (thorough), ASCII; BigInt/BigUint one 64-bit digit (thorough). Outside: Record values, Float64 x BigUint, longer texts. Hash equality judged on the byte stream fed to the Hasher. Trusted: Kani's MIR translation, CBMC incl. its float model. Recorded findings C19-F1/F2 (known_findings.json) are reported as KNOWN-FINDING; the same cells are verified with the finding's region assumed away.",
   ref="DESIGN.md section 4, C19"),
 "C17": dict(
   text="Bounded symbolic model checking of the real lock-free vote bit set: (S) every sequence of k operations with symbolic (party, op in vote/rescind/drop/poll) per step for 2 and 3 parties, compared with a reference bit set after every step; (I) one symbolic operation from every state satisfying the representation invariant, for 2..8 parties (thorough).",
   note="Bounds: 6 steps quick / 8-10 thorough. Assumes linearizability of vote (one fetch_or) and rescind (one successful CAS), so concurrent executions are sequential orders; memory-ordering effects and real threads are outside. futures::task::AtomicWaker::{register,wake} are stubbed by recorders (trusted library). Use sites in agent/task and downlink are not encoded.",
   ref="DESIGN.md section 4, C17"),
}

CLAIMED["C12"] = dict(
   text="Bounded symbolic model checking of the real byte channel, one transition at a time: the real channel is driven into each abstract state class (capacity, buffered count, who is parked on the single waker slot, closed-by) and ONE real operation (poll_read / poll_write / poll_flush / poll_shutdown / endpoint drop, concrete request size) is executed with symbolic buffered bytes, written bytes and coop budget; the complete real state (buffer bytes, closed flag, waker-slot owner, budget), the returned bytes/result and the wake counters are compared with a reference transition function. Covering every class x operation checks the transition relation for the stated sizes, hence histories of any length through the abstraction.",
   note="Bounds: capacity 1..2 quick / 1..3 thorough, requests 0..2 bytes. Outside (CBMC runs out of memory, measured): non-empty writes and endpoint drops while the buffer is non-empty - so 'write on a full buffer parks the writer' is not executed; parked-writer and closed classes with buffered data are constructed on the private representation (waker slot / closed flag set directly) and only their onward transitions are checked. Assumes every operation runs entirely under the parking_lot mutex (sequential orders of operations = concurrent executions); parking_lot slow paths stubbed to panic; wakers are hand-written counting RawWakerVTables. Kernel-level only: no tokio scheduler, no real threads.",
   ref="DESIGN.md section 4, C12")
CLAIMED["C02"] = dict(
   text="Bounded symbolic model checking of the real agent-side map-lane storage (MapStoreInner + WriteQueues/EventQueue coalescing + to_operation): every sequence of update(k)/remove(k)/clear/pop over 3 keys up to the stated length (operation kinds and key aliasing enumerated completely, values symbolic, epoch counter started at 0 and just below usize::MAX so it wraps) is executed on the real code, the queue is drained and the replica of an observer that applies what was popped must equal the lane's map; popped values must have been held by their key; the private epoch index must stay consistent.",
   note="Bounds: 3 keys, values 0..8, shapes complete to length 3 (+ seeded third of length 4) quick / complete to 4 + 600 seeded of length 5 thorough. Outside (measured intractable): symbolic keys/epoch beyond tiny shapes, the sync-queue path (C03), the runtime MapOperationQueue (BytesMut), take/drop ordering, Recon-equal-but-different key texts, composition of the two coalescing layers across the byte channel and all task interleavings. std HashMap replaced by an association-list shim under cfg(kani); a flat 3-slot MapOps backing stands in for the std maps.",
   ref="DESIGN.md section 4, C02")

CLAIMED["C20"] = dict(
   text="Bounded symbolic model checking of the real introspection counters (UplinkReporter / UplinkReportReader over three atomics): (S) every sequence of 6 (quick) / 8-10 (thorough) operations with a symbolic operation kind (count_events, count_commands, set_uplinks, snapshot) and a symbolic u64 argument per step, compared after every step with a u128 reference model - nothing lost, nothing counted twice, link count is the last value set and is not consumed; (I) one to three symbolic operations from an arbitrary counter triple; reader liveness after the reporter is dropped.",
   note="Claimed for the COUNTER half only: the Links registry half (link counts under link/unlink/remove paths) is not applicable - the nested HashMap registry ran out of memory at 40 GB in the feasibility probe even with concrete shape. Assumes each increment/snapshot_value/store is one atomic RMW or CAS loop whose failed iterations have no effect, so a concurrent run equals a sequential order of operations; snapshot() (three atomic operations) is treated as one step; saturation at u64::MAX of the pending counter is by design and outside 'nothing lost'. Call sites that do the counting are not encoded.",
   ref="DESIGN.md section 4, C20")
CLAIMED["C01"] = dict(
   text="Bounded symbolic model checking of the real agent-side ValueStore<u64> kernel (set, replace, init, consume, has_data_to_write, read, with, read_with_prev): every shape of operation kinds up to the stated length with symbolic u64 values; after every operation the dirty flag, current value and previous value are compared with a reference, and at the end of every shape the store is drained: the values handed to the writer are an in-order subsequence of the values held (nothing invented), nothing is owed after the drain and the last value handed out is the current value (never stale).",
   note="Kernel level only: ValueLane::write_to_buffer is mirrored through its store-level calls (consume for the event branch, read+has_data_to_write for the sync branch) because it is not separable from the Recon encoder; the sync_queue, run_agent's dirty_items loop, the runtime side (ValueBackpressure/Uplinks scheduling), several remotes and all task interleavings are outside. Shapes: all {set,consume} shapes to length 5 and all extended shapes to length 3 (+ seeded longer ones) quick; to 7 / 4 (+512 seeded) thorough. Single-threaded agent task assumed (the store is RefCell/Cell).",
   ref="DESIGN.md section 4, C01")
CLAIMED["C07"] = dict(
   text="Bounded symbolic model checking of the command-relief half: the real ValueBackpressure driven exactly as downlink::write_task drives it (write_direct when idle, push_operation while a write is in flight, has_data/prepare_write when it completes) over every sequence of submissions and completions up to length 3 (quick) / 4 (thorough, except shapes coalescing three or more non-empty commands under one in-flight write) with concrete body lengths 0..2 and symbolic body bytes: the frames sent are an in-order subsequence of the commands and once idle the last frame is the last command (only superseded commands are dropped).",
   note="Claimed for value downlinks' command relief only. Not applicable / outside: consumer attach/sync/linked/unlinked sessions (async select loops over tokio mpsc, timers, FramedRead), MapBackpressure/MapOperationQueue (Recon key comparison), the write task itself - its caller protocol is mirrored from downlink/mod.rs, not encoded. One genuine defect found and repaired (C07-X1).",
   ref="DESIGN.md section 4, C07")
CLAIMED["C14"] = dict(
   text="Bounded symbolic model checking of the supply half at strategy level: the real SupplyBackpressure driven as Uplinks::{push,replace_and_pop} drive it while the remote's writer is lent out, over every sequence of pushes (item length 0..2 concrete, bytes symbolic) and writer hand-backs up to length 3 (quick; thorough: item lengths 0..2): items handed out == items pushed - same order, same multiplicity, same bytes; one hand-back per item drains the queue.",
   note="Claimed for SupplyBackpressure only. Outside: command-lane handler invocation, ad hoc commands (CommandOutput/external_links), the Uplinks scheduler around the strategy (needs RemoteSender/byte channels), the agent-side SupplyLane queue, real channel writes and task interleavings. The caller protocol is mirrored from remotes/uplink/mod.rs, not encoded.",
   ref="DESIGN.md section 4, C14")

CLAIMED["C18"] = dict(
   text="Bounded symbolic model checking of the real route matcher and ambiguity check for literal patterns: for every shape (1-2 literal segments of 1-3 bytes per pattern, URI segments of 1-3 bytes; symbolic ASCII content incl. %XX escapes) two patterns and a path-only URI are built and matched with the real RoutePattern::unapply_route_uri: if both patterns match the URI then are_ambiguous must hold (and is symmetric); zero-parameter patterns invert (apply/unapply); matching is deterministic; parse_str agrees field by field with the pattern skeletons the harnesses use.",
   note="Outside (measured): parameter maps with >=1 parameter (std HashMap in the public signature), RouteUri::from_str (nom + nom_locate + memchr CPU-feature detection: a concrete '/ab' does not finish in 900 s), 'a parameter never binds an empty segment' (>20 GB in decode_utf8_lossy().to_string()), patterns with a scheme against a URI that carries a scheme (family S covers 1-byte schemes quick / 0-2-byte thorough against scheme-less URIs), relative patterns, parse_str on symbolic text beyond 2 bytes. Patterns are built from private fields (tied to the real parser by family P and by the native replay, which re-parses with parse_str/from_str). Stubs: RandomState::new (fixed keys; the map stays empty), core::fmt::write (no-op; error message text is not part of the property). One genuine defect found and repaired (C18-X1).",
   ref="DESIGN.md section 4, C18")
CLAIMED["C13"] = dict(
   text="Bounded symbolic model checking of the real RocksDB key encoding (StoreKey::serialize_as_bytes / write_into / map_ubound_bytes): lane ids over all of u64, keys of every length pair 0..4 (quick) / 0..6 (thorough) with symbolic bytes: encodings of different (lane,key) pairs differ, prefix(lane) <= encode(lane,k) < upper_bound(lane) in bytewise order, ranges of different lanes are disjoint, the suffix after MAP_KEY_PREFIX_SIZE is the key, value keys never collide with or fall inside any map key range.",
   note="Claimed for the key-encoding kernel ONLY. Not applicable: everything behind librocksdb-sys (FFI: put/get/delete_range/iterators, reopen, SIGKILL, merge-operator counter), the fixed 8-byte prefix extractor configured in rocks.rs (interpreted by RocksDB), KeyStore name keys (format!), and the in-memory store (std HashMap; not attempted). Assumes RocksDB's default bytewise comparator.",
   ref="DESIGN.md section 4, C13")

CLAIMED["C10"] = dict(
   text="Bounded symbolic model checking of the real raw value-family codecs (WithLengthBytesCodec, RawValueLaneRequest/Response encoders+decoders, RawValueStoreInit, StoreInitializedCodec, RawValueStoreResponseDecoder, DownlinkOperationDecoder): the real encoder's output equals the generated wire layout; for EVERY cut position of every frame kind the real decoder answers Ok(None) on the prefix and, once the rest is appended to the same buffer, returns exactly the encoded message and leaves the buffer empty; two frames in one stream (cut anywhere or not): the decoder never consumes bytes of the next frame. Body lengths concrete (0..1 quick, 0..2 thorough), ids and body bytes symbolic.",
   note="Claimed for the value-family raw codecs only. Outside (measured, do not finish under CBMC): map-operation/map-message/map-lane/map-store codecs, ad hoc command and routed request/response codecs (every cut scenario > 200 s; single-cut Register-frame harnesses time out at 900 s) and the corruption family (a single symbolic tag/length byte does not finish in 150 s) - so the clause 'corrupt tags or lengths produce an error rather than a panic' is NOT decided. Typed (Recon) codecs and cuts into three or more pieces are outside. Stub: alloc::fmt::format -> empty String. Frame bytes reach the decoder from exact-size array literals (bytes that passed through the encoder's heap buffer are not constant-folded), which is why encoder==layout and decoder-on-layout are separate linked obligations.",
   ref="DESIGN.md section 4, C10")

CLAIMED["C04"] = dict(
   text="Bounded symbolic model checking of one remote's real uplink scheduler (Uplinks::{push, push_special, replace_and_pop} with its value/supply uplinks, queued/send_synced flags, write queue and special queue): the first push finds the writer free, a second push finds it lent out; the writer is then handed back once and the WriteTask that comes out is interpreted with perform_write's action table: events only inside a link and only with a body the lane produced (in order), synced only after a sync request and after the data queued before it, specials pre-empt, frames carry the name of their lane, owed work is handed out; the scheduler's representation invariant (queued flag <-> write-queue entry, an uplink that owes a write is queued) is checked before and after the hand-back.",
   note="Narrow kernel claim. Covered: every single push, and every pair whose second push (writer lent out) is an empty value body, a value-lane Synced marker or an Unlinked/Linked special; body bytes symbolic. Outside (measured: time out at 900 s): pairs whose second push is a non-empty body or a supply-lane operation, three or more pushes, a second hand-back - so value coalescing under a busy writer, supply re-queueing and multi-hand-back drains are not covered. Not applicable: Links/RemoteTracker/WriteTaskState (several remotes, broadcast fan-out, unlink_all, lane failure, agent stop), map uplinks, perform_write itself (async FramedWrite; its action->frame table is mirrored), LaneNotFound, the read task, timers, interleavings. Stubs: parking_lot slow paths; std HashMap -> shim; LaneRegistry built through private fields (tracing::debug! in add_endpoint makes the Kani compiler panic). One genuine defect found and repaired (C04-X1).",
   ref="DESIGN.md section 4, C04")

NA = {
 "C03": "the sync-queue path of WriteQueues does not finish under CBMC even fully concrete (update+sync+3 pops: time-out at 400 s; same shape without sync: 8 s); of the runtime half only the ordering of a synced marker after queued data is checked, inside the narrow C04 scheduler kernel; no kernel carries the snapshot property (DESIGN.md section 4/5)",
 "C05": "the property is the order of persist_response before handle_event inside an async select loop, every crash point and restart through tokio tasks; Kani cannot execute the runtime and the only kernel (persist_response) says nothing about order or crashes",
 "C06": "quantifies over handler programs (trees of boxed HandlerActions) run by the agent's async loop; no data-symbolic kernel carries it, program structure can only be enumerated",
 "C08": "on_read/on_event are private async fns over lifecycle futures and tracing, hosted downlinks sit behind the agent HandlerAction machinery; far simpler heap code (C02, C12) is already at CBMC's limit, so no honest bound was in reach",
 "C09": "Recon parser/printers (nom + core::fmt, ~4 kLoC) are beyond CBMC: even tokens::unescape on a 6-byte string times out at 400 s",
 "C11": "the only candidate kernel (escape_if_needed / tokens::unescape) times out at 400 s for 1-6 byte strings (char iterators, scan/flatten/collect); routing through RemoteTask/MultiReader needs the tokio runtime",
 "C15": "both sides of the law (compare_recon_values/recon_hash vs parse_recognize) are the incremental Recon parser (C09 reason)",
 "C16": "derive-generated recognisers + Recon parser + MessagePack reader over heap Value trees, quantified over derived types (programs); C06 + C09 reasons",
}

def main():
    props = [json.loads(l) for l in open('/verif/properties.jsonl')]
    na_default = "not yet built in this session (see DESIGN.md section 4)"
    hooks = subprocess.run(["git", "-C", "/repo", "log", "--format=%h %s", "--grep=^verif hook"],
                           capture_output=True, text=True).stdout.strip().splitlines()
    checks = []
    for pid, c in sorted(CLAIMED.items()):
        checks.append({
            "property_id": pid, "quick_cmd": f"./check {pid} --tier quick",
            "thorough_cmd": f"./check {pid} --tier thorough",
            "evidence_file": f"/verif/evidence/{pid}.json",
            "replay_cmd_template": f"./check {pid} --replay {{path}}", "engine": "kani-cbmc",
            "level_claimed": {"category": "model_checking", "text": c["text"], "design_ref": c["ref"]},
            "level_note": c["note"], "technique": TECH})
    m = {
        "version": 1, "setup_cmd": "./setup.sh",
        "hooks": {"guard": "cfg(kani)",
                  "enable": "set automatically by the Kani compiler (cargo kani / cargo kani playback); never set in ordinary builds",
                  "baseline_off_cmd": "cd /repo && cargo test --workspace --no-fail-fast --offline",
                  "source_commits": [h.split()[0] for h in hooks], "add_only": True},
        "engines": [{"name": "kani-cbmc", "path": "/verif/check", "serves_properties": sorted(CLAIMED),
                     "kind_free_text": "Kani 0.68 / CBMC 6.11 bounded symbolic execution of the compiled repository code; python driver in lib/"}],
        "checks": checks,
        "not_applicable": [{"property_id": p["id"], "reason": NA.get(p["id"], na_default)}
                           for p in props if p["id"] not in CLAIMED],
        "notes": "Every check decides its property by CBMC verdicts over #[kani::proof] harnesses compiled from /repo's working tree on each run; exit 2 = inconclusive (timeout/out of memory/trivial harness), never reported as held.",
    }
    json.dump(m, open('/verif/MANIFEST.json', 'w'), indent=1)

main()
