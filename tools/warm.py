#!/usr/bin/env python3
"""Offline warm-up used by setup.sh: regenerate the harness lists of every claimed property and
compile each harness crate once under Kani (dependencies included), so that the first check
after a fresh restore does not pay the dependency build. Failures here are not fatal: every
check rebuilds what it needs itself."""
import importlib
import json
import os
import subprocess
import sys

sys.path.insert(0, os.path.dirname(os.path.dirname(os.path.abspath(__file__))))
os.chdir(os.path.dirname(os.path.dirname(os.path.abspath(__file__))))
from lib import runner  # noqa: E402

runner.ensure_includes()
props = [c["property_id"] for c in json.load(open("MANIFEST.json"))["checks"]]
seen = set()
for p in props:
    try:
        mod = importlib.import_module("lib.props." + p.lower())
        groups, _ = mod.plan("quick", 0)
    except Exception as e:  # pragma: no cover
        print("warm: plan failed for", p, e)
        continue
    for g in groups:
        key = (g.cwd, g.package, g.target)
        if g.pre:
            g.pre()
        runner.ensure_playback_stubs({runner.playback_file(g, h) for h in g.harnesses})
        if key in seen:
            continue
        seen.add(key)
        cmd = ["cargo", "kani"] + (["-p", g.package] if g.package else []) + \
              ["--target-dir", os.path.join(runner.TARGET_ROOT, g.target), "-Z", "unstable-options"] + \
              (["-Z", "stubbing"] if g.stubbing else []) + ["--only-codegen", "--harness", "__warm_no_such_harness__"]
        print("warm:", " ".join(cmd), flush=True)
        subprocess.run(cmd, cwd=g.cwd, env=runner.ENV, stdout=subprocess.DEVNULL, stderr=subprocess.DEVNULL)
print("warm: done")
