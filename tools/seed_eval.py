#!/usr/bin/env python3
"""Confirm a seeded change in a scratch worktree and run the matching check against it.

  seed_eval.py import  <prop> <n> <srcdir>   copy the sub-agent's deliverables to seeded/<PROP>/<n>/
  seed_eval.py confirm <prop> <n> <worktree> apply in the scratch worktree: existing tests of the touched crate
                                              pass, demo fails with the patch and passes without
  seed_eval.py check   <prop> <n> [--only RX] [--tier T]
                                              git -C /repo apply, run ./check <PROP>, undo straight afterwards
Results are appended to seeded/<PROP>/<n>/meta.json under "confirmed" / "check_runs"."""
import json
import os
import re
import shutil
import subprocess
import sys
import time

VERIF = "/verif"
CRATE_DIR = {"swimos_model": "api/swimos_model", "swimos_runtime": "runtime/swimos_runtime",
             "swimos_byte_channel": "swimos_utilities/swimos_byte_channel", "swimos_agent": "server/swimos_agent",
             "swimos_route": "swimos_utilities/swimos_route", "swimos_agent_protocol": "api/swimos_agent_protocol",
             "swimos_messages": "runtime/swimos_messages", "swimos_rocks_store": "runtime/swimos_rocks_store",
             "swimos_server_app": "server/swimos_server_app", "swimos_encoding": "swimos_utilities/swimos_encoding"}


def sd(prop, n):
    return os.path.join(VERIF, "seeded", prop.upper(), str(n))


def load(prop, n):
    return json.load(open(os.path.join(sd(prop, n), "meta.json")))


def save(prop, n, m):
    json.dump(m, open(os.path.join(sd(prop, n), "meta.json"), "w"), indent=1)


def run(cmd, cwd, env=None, timeout=None):
    e = dict(os.environ)
    e["CARGO_NET_OFFLINE"] = "true"
    if env:
        e.update(env)
    t0 = time.time()
    p = subprocess.run(cmd, cwd=cwd, env=e, shell=isinstance(cmd, str), capture_output=True, text=True, timeout=timeout)
    return p.returncode, p.stdout + p.stderr, time.time() - t0


def cmd_import(prop, n, src):
    d = sd(prop, n)
    os.makedirs(d, exist_ok=True)
    for f in os.listdir(src):
        if f.endswith(".log"):
            continue
        shutil.copy(os.path.join(src, f), os.path.join(d, f))
    m = load(prop, n)
    m["property"] = prop.upper()
    save(prop, n, m)
    print("imported", d)


def demo_info(prop, n):
    m = load(prop, n)
    cmd = m["demo_cmd"]
    crate = re.search(r"-p (\S+)", cmd).group(1)
    demo = [f for f in os.listdir(sd(prop, n)) if f.endswith(".rs")][0]
    return m, cmd, crate, demo


def demo_dest(prop, n, crate, demo):
    """Where the demonstration file goes: taken from demo.md ("Copy `file` to `path`"), else <crate>/tests/."""
    md = os.path.join(sd(prop, n), "demo.md")
    if os.path.exists(md):
        txt = open(md).read()
        mm = re.search(r"[Cc]opy\s+`%s`\s+to\s*\n?\s*`([^`]+)`" % re.escape(demo), txt)
        if mm:
            return mm.group(1)
    return os.path.join(CRATE_DIR[crate], "tests", demo)


def cmd_confirm(prop, n, wt):
    m, cmd, crate, demo = demo_info(prop, n)
    env = {"CARGO_TARGET_DIR": os.path.join(wt, "target")}
    patch = os.path.join(sd(prop, n), "patch.diff")
    rel = demo_dest(prop, n, crate, demo)
    dest = os.path.join(wt, rel)
    reg = os.path.join(sd(prop, n), "demo_register.diff")
    if not os.path.exists(reg):
        reg = os.path.join(sd(prop, n), "demo_hook.diff")
    run("git checkout -- . && git clean -fdq -e target", wt)
    os.makedirs(os.path.dirname(dest), exist_ok=True)
    res = {"worktree": wt, "demo_placed_at": rel, "at": time.strftime("%Y-%m-%dT%H:%M:%SZ", time.gmtime())}
    # without the patch: demo passes
    shutil.copy(os.path.join(sd(prop, n), demo), dest)
    if os.path.exists(reg):
        run(["git", "apply", reg], wt)
    rc, out, t = run(cmd, wt, env)
    res["demo_without_patch"] = {"cmd": cmd, "exit": rc, "tail": out.strip().splitlines()[-3:]}
    # with the patch
    rc_a, out_a, _ = run(["git", "apply", patch], wt)
    res["apply_exit"] = rc_a
    rc, out, t = run(cmd, wt, env)
    res["demo_with_patch"] = {"cmd": cmd, "exit": rc, "tail": [l for l in out.strip().splitlines() if "test result" in l or "panicked" in l][-4:]}
    # existing tests of the touched crate (demo removed so that only the unedited suite runs)
    os.remove(dest)
    if os.path.exists(reg):
        run(["git", "apply", "-R", reg], wt)
    tcmd = f"cargo test -p {crate} --offline -j 6"
    rc, out, t = run(tcmd, wt, env)
    res["existing_tests_with_patch"] = {"cmd": tcmd, "exit": rc,
                                         "results": [l for l in out.splitlines() if l.startswith("test result")]}
    run("git checkout -- . && git clean -fdq -e target", wt)
    res["ok"] = (res["demo_without_patch"]["exit"] == 0 and res["demo_with_patch"]["exit"] != 0
                 and res["existing_tests_with_patch"]["exit"] == 0 and rc_a == 0)
    m["confirmed"] = res
    save(prop, n, m)
    print(prop, n, "confirmed" if res["ok"] else "NOT CONFIRMED", json.dumps(res)[:600])


def cmd_check(prop, n, extra):
    m = load(prop, n)
    patch = os.path.join(sd(prop, n), "patch.diff")
    rebased = os.path.join(sd(prop, n), "patch_rebased.diff")
    if os.path.exists(rebased):
        patch = rebased   # same change, rebased onto a later fix: commit touching the same lines
    rc, out, _ = run("git status --porcelain --untracked-files=no", "/repo")
    dirty_before = out.strip()
    rc_a, out_a, _ = run(["git", "apply", patch], "/repo")
    if rc_a != 0:
        print("patch does not apply to /repo:", out_a)
        return
    touched = subprocess.run(["git", "apply", "--numstat", patch], cwd="/repo", capture_output=True, text=True).stdout.split()[2::3]
    run_as = prop.upper()
    if "--as" in extra:
        i = extra.index("--as")
        run_as = extra[i + 1].upper()
        extra = extra[:i] + extra[i + 2:]
    try:
        cmd = ["./check", run_as] + extra
        rc, out, t = run(cmd, VERIF)
    finally:
        run(["git", "checkout", "--"] + touched, "/repo")
    lines = [l for l in out.splitlines() if l.startswith("VIOLATION") or l.startswith("   failed:") or l.startswith("== ") and "obligations" in l
             or l.startswith("INCONCLUSIVE") or l.startswith("KNOWN-FINDING")]
    rec = {"cmd": " ".join(cmd), "exit": rc, "wall_s": round(t), "lines": [l[:300] for l in lines][:12],
           "at": time.strftime("%Y-%m-%dT%H:%M:%SZ", time.gmtime()), "detected": rc == 1}
    m.setdefault("check_runs", []).append(rec)
    save(prop, n, m)
    rc2, out2, _ = run("git status --porcelain --untracked-files=no", "/repo")
    print(prop, n, "exit", rc, "DETECTED" if rc == 1 else "MISSED/INCONCLUSIVE", f"{t:.0f}s")
    for l in rec["lines"]:
        print("   ", l)
    if out2.strip() != dirty_before:
        print("WARNING: /repo status changed:", out2)


if __name__ == "__main__":
    a = sys.argv[1:]
    if a[0] == "import":
        cmd_import(a[1], a[2], a[3])
    elif a[0] == "confirm":
        cmd_confirm(a[1], a[2], a[3])
    elif a[0] == "check":
        cmd_check(a[1], a[2], a[3:])
