#!/bin/sh
# Runs every claimed check once, sequentially (a quick tier uses up to 12 CBMC processes, so checks
# are not run in parallel). Usage: tools/run_all.sh [quick|thorough]
tier=${1:-quick}
cd "$(dirname "$0")/.."
rc_all=0
for p in $(python3 -c "import json;print(' '.join(c['property_id'] for c in json.load(open('MANIFEST.json'))['checks']))"); do
  s=$(date +%s)
  ./check "$p" --tier "$tier" > ".logs/run_all_$p.log" 2>&1
  rc=$?
  e=$(date +%s)
  echo "$p exit $rc wall $((e-s))s $(grep '^== ' ".logs/run_all_$p.log" | tail -1)"
  grep -E '^(VIOLATION|KNOWN-FINDING)' ".logs/run_all_$p.log"
  [ "$rc" -ne 0 ] && rc_all=$rc
done
exit $rc_all
