//! Native (ordinary Rust) witnesses for suspected defects of the raw codecs that the C10 Kani
//! check could NOT decide (their codec families do not finish under CBMC — see lib/props/c10.py
//! `outside`). These tests do not decide property C10; they document concrete inputs. Each test
//! asserts the *defective* behaviour, so it passes while the defect is present.
//! Run: cd /verif/ext/c10_codecs && cargo test --offline --test native_witnesses
use bytes::{BufMut, BytesMut};
use std::panic::{catch_unwind, AssertUnwindSafe};
use swimos_agent_protocol::encoding::command::{RawCommandMessageDecoder, RawCommandMessageEncoder};
use swimos_agent_protocol::encoding::map::RawMapOperationDecoder;
use swimos_agent_protocol::CommandMessage;
use swimos_api::address::Address;
use swimos_utilities::encoding::{BytesStr, WithLengthBytesCodec};
use tokio_util::codec::{Decoder, Encoder};

fn register_frame() -> BytesMut {
    let mut enc = RawCommandMessageEncoder::default();
    let mut buf = BytesMut::new();
    let msg: CommandMessage<&str, &[u8]> = CommandMessage::Register {
        address: Address::new(None, "n", "l"),
        id: 7,
    };
    enc.encode(msg, &mut buf).unwrap();
    buf
}

/// W1 (command/mod.rs:218-221 and 234-237): a `Register` frame that arrives in two pieces (cut
/// anywhere after the flags byte) is never delivered: on the incomplete read the decoder stores
/// `ReadingAddressedHeader` instead of `ReadingRegistration`, then parses the address as the
/// header of an `Addressed` message and waits for a body, swallowing the id bytes.
#[test]
fn w1_register_frame_split_after_flags_is_lost() {
    let frame = register_frame();
    assert_eq!(frame.len(), 1 + 8 + 8 + 1 + 1 + 2);
    // unsplit: decodes
    let mut dec = RawCommandMessageDecoder::<BytesStr>::default();
    let mut whole = frame.clone();
    assert!(matches!(
        dec.decode(&mut whole),
        Ok(Some(CommandMessage::Register { id: 7, .. }))
    ));
    let mut lost = 0;
    for cut in 1..frame.len() {
        let mut dec = RawCommandMessageDecoder::<BytesStr>::default();
        let mut src = BytesMut::new();
        src.extend_from_slice(&frame[..cut]);
        assert!(matches!(dec.decode(&mut src), Ok(None)));
        src.extend_from_slice(&frame[cut..]);
        match dec.decode(&mut src) {
            Ok(Some(CommandMessage::Register { id: 7, .. })) => {}
            Ok(None) => lost += 1, // whole frame present, nothing delivered
            other => panic!("unexpected: {:?}", other),
        }
    }
    // every cut position after the flags byte loses the message
    assert_eq!(lost, frame.len() - 1);
}

/// W1 continued: the bytes of the NEXT frame are then consumed as the "body" of the phantom
/// addressed message — a silently wrong message is delivered.
#[test]
fn w1_register_then_next_frame_yields_wrong_message() {
    let frame = register_frame();
    let mut dec = RawCommandMessageDecoder::<BytesStr>::default();
    let mut src = BytesMut::new();
    src.extend_from_slice(&frame[..5]);
    assert!(matches!(dec.decode(&mut src), Ok(None)));
    src.extend_from_slice(&frame[5..]);
    assert!(matches!(dec.decode(&mut src), Ok(None)));
    // a second, complete Register frame follows
    src.extend_from_slice(&frame);
    match dec.decode(&mut src) {
        Ok(Some(CommandMessage::Addressed { .. })) | Ok(None) => {}
        other => panic!("unexpected: {:?}", other),
    }
}

/// W2 (codec.rs:48): `LEN_SIZE + len` overflows for a corrupt length >= 2^64-8: panic in debug
/// builds (overflow), panic in release builds (`split_to out of bounds`) instead of an error.
#[test]
fn w2_with_length_bytes_codec_panics_on_huge_length() {
    let mut src = BytesMut::new();
    src.put_u64(u64::MAX);
    src.put_u8(1);
    let r = catch_unwind(AssertUnwindSafe(|| WithLengthBytesCodec.decode(&mut src)));
    assert!(r.is_err(), "expected a panic");
}

/// W3 (map/mod.rs:153 / 162): corrupt total length / key length of a map `Update` panic.
#[test]
fn w3_raw_map_operation_decoder_panics_on_corrupt_lengths() {
    // total_len = u64::MAX
    let mut src = BytesMut::new();
    src.put_u64(u64::MAX);
    src.put_u8(0);
    src.put_u64(1);
    src.put_u8(b'k');
    src.put_u8(b'v');
    let r = catch_unwind(AssertUnwindSafe(|| RawMapOperationDecoder.decode(&mut src)));
    assert!(r.is_err(), "expected a panic (total_len)");
    // valid total_len, key_len = u64::MAX - 8
    let mut src = BytesMut::new();
    src.put_u64(11);
    src.put_u8(0);
    src.put_u64(u64::MAX - 8);
    src.put_u8(b'k');
    src.put_u8(b'v');
    let r = catch_unwind(AssertUnwindSafe(|| RawMapOperationDecoder.decode(&mut src)));
    assert!(r.is_err(), "expected a panic (key_len)");
}
