#![allow(dead_code, unused_imports, clippy::all)]

#[cfg(kani)]
mod harness {
    use swimos_route::{RoutePattern, RouteUri};

    fn ascii<const N: usize>() -> [u8; N] {
        let a: [u8; N] = kani::any();
        let mut i = 0;
        while i < N {
            kani::assume(a[i] < 0x80);
            i += 1;
        }
        a
    }

    #[kani::proof]
    #[kani::unwind(6)]
    fn probe_parse3() {
        let a = ascii::<3>();
        let s = unsafe { std::str::from_utf8_unchecked(&a) };
        let r = RoutePattern::parse_str(s);
        kani::cover!(r.is_ok(), "ok");
        kani::cover!(r.is_err(), "err");
        std::mem::forget(r);
    }

    #[kani::proof]
    #[kani::unwind(6)]
    fn probe_parse_conc() {
        let r = RoutePattern::parse_str("/ab");
        kani::cover!(r.is_ok(), "ok");
        std::mem::forget(r);
    }

    #[kani::proof]
    #[kani::unwind(6)]
    fn probe_uri_conc() {
        let r = "/ab".parse::<RouteUri>();
        kani::cover!(r.is_ok(), "ok");
        std::mem::forget(r);
    }

    #[kani::proof]
    #[kani::unwind(6)]
    fn probe_hashset_new() {
        let r: std::collections::HashSet<&str> = std::collections::HashSet::new();
        kani::cover!(r.is_empty(), "ok");
        std::mem::forget(r);
    }

    #[kani::proof]
    #[kani::unwind(6)]
    fn probe_uri3() {
        let a = ascii::<3>();
        let s = unsafe { std::str::from_utf8_unchecked(&a) };
        let r = s.parse::<RouteUri>();
        kani::cover!(r.is_ok(), "ok");
        kani::cover!(r.is_err(), "err");
        std::mem::forget(r);
    }
}
