//! Native confirmation of the concrete witnesses quoted in /verif/known_findings.json (C19).
//! Run: cd /verif/ext/c19_value && cargo test --offline --test known_witnesses
use std::cmp::Ordering;
use swimos_model::Value;

#[test]
fn f1_int_float_equal_but_not_eq() {
    let a = Value::Int64Value(13);
    let b = Value::Float64Value(13.0);
    assert_eq!(a.cmp(&b), Ordering::Equal);
    assert!(a != b);
}

#[test]
fn f1_transitivity_through_lossy_conversion() {
    let a = Value::Int64Value(1 << 53);
    let x = Value::Float64Value((1u64 << 53) as f64);
    let b = Value::Int64Value((1 << 53) + 1);
    assert_eq!(b.cmp(&x), Ordering::Equal); // b <= x
    assert_eq!(x.cmp(&a), Ordering::Equal); // x <= a
    assert_eq!(b.cmp(&a), Ordering::Greater); // but b > a
}

#[test]
fn f2_epsilon_equal_but_not_eq_and_not_transitive() {
    let a = Value::Float64Value(0.0);
    let b = Value::Float64Value(2e-16);
    let c = Value::Float64Value(4e-16);
    assert_eq!(a.cmp(&b), Ordering::Equal);
    assert!(a != b);
    assert_eq!(b.cmp(&c), Ordering::Equal);
    assert_eq!(c.cmp(&a), Ordering::Greater); // c <= b <= a but c > a
}
