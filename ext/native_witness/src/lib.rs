// native witnesses for findings live in tests/
