//! C11/C09 witness: a quoted string with a `\uD800` escape (lone surrogate) panics the reader.
use swimos_recon::parser::{parse_text_token, Span};

#[test]
fn surrogate_escape_does_not_panic() {
    let r = std::panic::catch_unwind(|| parse_text_token(Span::new("\"\\ud800\"")).map(|c| c.into_owned()));
    assert!(r.is_ok(), "parse_text_token panicked on a lone-surrogate escape");
}
